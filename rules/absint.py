"""E3: finite-domain abstract interpreter over mirfacts MIR.

Leaves of comparison-only types are opaque *ordered symbols*; everything else is
concrete structure.  Any operation on a symbol other than a comparison (or a
summarised order-preserving library call such as cmp::min) aborts with
LeavesFragment and the check fails closed: that is what makes "interpret over
all weak orders of the inputs" an exhaustive decision for all inputs.
"""
import itertools
import re


class LeavesFragment(Exception):
    pass


class Cell:
    __slots__ = ("val",)

    def __init__(self, val=None):
        self.val = val


def V_sym(n):
    return ("sym", n)


def V_bool(b):
    return ("bool", bool(b))


def V_int(n):
    return ("int", int(n))


def V_enum(adt, vidx, vname, fields):
    return ("enum", adt, vidx, vname, list(fields))


def V_struct(adt, fields):
    return ("struct", adt, list(fields))


def V_tuple(fields):
    return ("tuple", list(fields))


def V_ref(cell, path=()):
    return ("ref", cell, tuple(path))


def V_opaque(tag):
    return ("opaque", tag)


def V_some(v):
    return V_enum("std::option::Option", 1, "Some", [v])


def V_none():
    return V_enum("std::option::Option", 0, "None", [])


def V_ok(v):
    return V_enum("std::result::Result", 0, "Ok", [v])


def V_err(v):
    return V_enum("std::result::Result", 1, "Err", [v])


def fields_of(v):
    if v is None:
        raise LeavesFragment("read of an uninitialised value")
    if v[0] == "enum":
        return v[4]
    if v[0] in ("struct", "closure"):
        return v[2]
    if v[0] == "tuple":
        return v[1]
    raise LeavesFragment("projection into non-aggregate %r" % (v[0],))


def read_path(cell, path):
    v = cell.val
    for f in path:
        fs = fields_of(v)
        if f >= len(fs):
            raise LeavesFragment("field index out of range")
        v = fs[f]
    return v


def write_path(cell, path, val):
    if not path:
        cell.val = val
        return
    v = cell.val
    for f in path[:-1]:
        v = fields_of(v)[f]
    fields_of(v)[path[-1]] = val


CMP = {
    "lt": lambda a, b: a < b,
    "le": lambda a, b: a <= b,
    "gt": lambda a, b: a > b,
    "ge": lambda a, b: a >= b,
    "eq": lambda a, b: a == b,
    "ne": lambda a, b: a != b,
}
CMP_RX = re.compile(r"^std::cmp::Partial(?:Ord|Eq)::(lt|le|gt|ge|eq|ne)$")


def show(v, depth=0):
    """Readable rendering of a value (follows refs)."""
    if v is None:
        return "<uninit>"
    k = v[0]
    if k == "sym":
        return v[1]
    if k in ("bool", "int"):
        return str(v[1]).lower() if k == "bool" else str(v[1])
    if k == "enum":
        return "%s%s" % (v[3], ("(" + ", ".join(show(x, depth + 1) for x in v[4]) + ")") if v[4] else "")
    if k == "struct":
        return "%s{%s}" % (v[1].split("::")[-1], ", ".join(show(x, depth + 1) for x in v[2]))
    if k == "tuple":
        return "(" + ", ".join(show(x, depth + 1) for x in v[1]) + ")"
    if k == "ref":
        if depth > 6:
            return "&.."
        return "&" + show(read_path(v[1], v[2]), depth + 1)
    if k == "opaque":
        return "<%s>" % v[1]
    return k


def strip(v, depth=0):
    """Structural value with refs followed (for comparing results)."""
    if v is None:
        return None
    k = v[0]
    if k == "ref":
        if depth > 8:
            return ("ref..",)
        return strip(read_path(v[1], v[2]), depth + 1)
    if k == "enum":
        return ("enum", v[3], tuple(strip(x, depth + 1) for x in v[4]))
    if k == "struct":
        return ("struct", v[1], tuple(strip(x, depth + 1) for x in v[2]))
    if k == "tuple":
        return ("tuple", tuple(strip(x, depth + 1) for x in v[1]))
    return v


class Interp:
    def __init__(self, facts, order, summaries=None, opaque_callees=(), sym_types=(), max_steps=20000, choices=()):
        self.facts = facts
        # a branch on a value the fragment does not model (a log-level test, an opaque flag) is a nondeterministic
        # choice: `choices` replays a prefix, `taken`/`arities` record the run so that `explore` can enumerate all
        self.choices = list(choices)
        self.taken = []
        self.arities = []
        self.order = order          # sym name -> rank
        self.steps = 0
        self.max_steps = max_steps
        self.summaries = summaries or {}        # callee path (exact) -> fn(interp, args, term) -> value
        self.opaque_rx = [re.compile(p) for p in opaque_callees]
        self.sym_types = sym_types              # allowed leaf types for comparisons (regexes)
        self.cmp_types = set()                  # types actually compared (evidence)
        self.cmp_log = []

    def choose(self, arity):
        """A nondeterministic choice made by a summary (e.g. `the header is present / absent`)."""
        i = len(self.taken)
        pick = self.choices[i] if i < len(self.choices) else 0
        self.taken.append(pick)
        self.arities.append(arity)
        return pick

    def vidx(self, adt, variant):
        a = self.facts.adts.get(adt)
        if a is None:
            raise LeavesFragment("unknown ADT %s" % adt)
        for i, v in enumerate(a["variants"]):
            if v["name"] == variant:
                return i
        raise LeavesFragment("unknown variant %s::%s" % (adt, variant))

    # ---- places / operands
    def place(self, frame, pl):
        cell = frame[pl["l"]]
        path = ()
        for e in pl["p"]:
            if e == "*":
                v = read_path(cell, path)
                if v is not None and v[0] == "opaque":
                    cell, path = Cell(v), ()   # an opaque value stays opaque behind a pointer
                    continue
                if v is None or v[0] != "ref":
                    raise LeavesFragment("deref of non-reference %s" % (v[0] if v else None))
                cell, path = v[1], v[2]
            elif isinstance(e, dict) and "f" in e:
                path = path + (e["f"],)
            elif isinstance(e, dict) and "dc" in e:
                v = read_path(cell, path)
                if v[0] != "enum" or v[2] != e["v"]:
                    raise LeavesFragment("downcast to wrong variant")
            else:
                raise LeavesFragment("unsupported projection %r" % (e,))
        return cell, path

    def operand(self, frame, op):
        k = op["k"]
        if k in ("copy", "move"):
            cell, path = self.place(frame, op["pl"])
            return read_path(cell, path)
        if k == "const":
            ty = op["ty"]
            val = op.get("val")
            if op.get("fn"):
                return ("zst", op["fn"])
            if ty == "std::cmp::Ordering" and val and "int" in val:
                i = {255: 0, -1: 0, 0: 1, 1: 2}.get(val["int"])
                if i is not None:
                    return V_enum(ty, i, ["Less", "Equal", "Greater"][i], [])
            if ty == "bool" and val and "int" in val:
                return V_bool(val["int"])
            if val and "int" in val:
                return V_int(val["int"])
            if val and "zst" in val:
                return ("zst", None)
            if val and "str" in val:
                return V_opaque("str:" + val["str"])
            return V_opaque("const:" + (op.get("path") or ty))
        raise LeavesFragment("unsupported operand")

    def deref_all(self, v):
        while v is not None and v[0] == "ref":
            v = read_path(v[1], v[2])
        return v

    def sym_rank(self, v):
        v = self.deref_all(v)
        if v is None or v[0] != "sym":
            raise LeavesFragment("comparison operand is not an ordered symbol: %r" % (v[0] if v else None,))
        return self.order[v[1]], v[1]

    # ---- execution
    def call_fn(self, fn, args):
        """fn: engine.Fn.  args: list of values for locals 1..argc."""
        frame = {i: Cell() for i in range(len(fn.raw["locals"]))}
        for i, a in enumerate(args):
            frame[i + 1].val = a
        bb = 0
        blocks = fn.blocks
        while True:
            self.steps += 1
            if self.steps > self.max_steps:
                raise LeavesFragment("step budget exceeded (loop?) in %s" % fn.id)
            b = blocks[bb]
            for st in b["st"]:
                if st["s"] != "assign":
                    raise LeavesFragment("unsupported statement %s" % st["s"])
                val = self.rvalue(fn, frame, st["rv"])
                cell, path = self.place(frame, st["pl"])
                write_path(cell, path, val)
            t = b["term"]
            k = t["t"]
            if k in ("goto", "falseedge", "falseunwind", "drop"):
                bb = t["to"]
            elif k == "switch":
                d = self.operand(frame, t["discr"])
                if d is not None and d[0] == "opaque":
                    outs = [tgt for _, tgt in t["targets"]] + ([t["otherwise"]] if t.get("otherwise") is not None else [])
                    bb = outs[self.choose(len(outs))]
                    continue
                if d is None or d[0] not in ("int", "bool"):
                    raise LeavesFragment("switch on a non-concrete value (%s) at %s bb%d" % (d[0] if d else None, fn.id, bb))
                dv = int(d[1])
                nxt = t["otherwise"]
                for val, tgt in t["targets"]:
                    if val == dv:
                        nxt = tgt
                        break
                bb = nxt
            elif k == "return":
                return frame[0].val
            elif k == "call":
                res = self.do_call(fn, frame, t, bb)
                cell, path = self.place(frame, t["dest"])
                write_path(cell, path, res)
                if "to" not in t:
                    raise LeavesFragment("diverging call %s" % t.get("callee"))
                bb = t["to"]
            elif k == "unreachable":
                raise LeavesFragment("reached `unreachable` at %s bb%d" % (fn.id, bb))
            else:
                raise LeavesFragment("unsupported terminator %s in %s bb%d" % (k, fn.id, bb))

    def do_call(self, fn, frame, t, bb):
        callee = t.get("callee")
        argv = [self.operand(frame, a) for a in t["args"]]
        if callee is None:
            raise LeavesFragment("indirect call at %s bb%d" % (fn.id, bb))
        m = CMP_RX.match(callee)
        if m and m.group(1) in ("eq", "ne") and len(argv) == 2:
            # (in)equality of two field-less enum values (e.g. `ord == Ordering::Less`) is structural
            ea, eb = self.deref_all(argv[0]), self.deref_all(argv[1])
            if ea and eb and ea[0] == "enum" and eb[0] == "enum" and ea[1] == eb[1] and not ea[4] and not eb[4]:
                return V_bool((ea[2] == eb[2]) == (m.group(1) == "eq"))
        if m:
            (ra, na), (rb, nb) = self.sym_rank(argv[0]), self.sym_rank(argv[1])
            ty = fn.local_ty(t["args"][0]["pl"]["l"]) if t["args"][0].get("pl") else "?"
            leaf = re.sub(r"^(&('\{erased\} |'[a-z_]+ )?(mut )?)+", "", ty)
            self.cmp_types.add(leaf)
            if self.sym_types and not any(re.search(p, leaf) for p in self.sym_types):
                raise LeavesFragment("comparison on type %s, which is not a declared comparison-only leaf type" % leaf)
            self.cmp_log.append((m.group(1), na, nb))
            return V_bool(CMP[m.group(1)](ra, rb))
        if callee in self.summaries:
            return self.summaries[callee](self, argv, t)
        res = t.get("resolved")
        if res and res in self.summaries:
            return self.summaries[res](self, argv, t)
        target = None
        if callee in self.facts.F:
            target = self.facts.F[callee]
        elif res and res in self.facts.F:
            target = self.facts.F[res]
        if target is not None:
            return self.call_fn(target, argv)
        if callee in GENERIC_SUMMARIES:
            return GENERIC_SUMMARIES[callee](self, argv, t)
        for rx in self.opaque_rx:
            if rx.search(callee) or (res and rx.search(res)):
                return V_opaque(callee)
        raise LeavesFragment("call to %s at %s bb%d leaves the comparison-only fragment" % (callee, fn.id, bb))

    def call_closure(self, clo, *args):
        """clo: ('closure', def, captures) ; FnOnce/Fn with the given arguments; a constant fn item (`.map(helper)`,
        `.map_or_else(Self::A, ..)`) is called directly."""
        v = self.deref_all(clo)
        if v is not None and v[0] == "zst" and v[1] in self.facts.F:
            return self.call_fn(self.facts.F[v[1]], list(args))
        if v is not None and v[0] == "zst" and v[1] and len(args) == 1:
            ctor = {"Some": V_some, "Ok": V_ok, "Err": V_err}.get(v[1].split("::")[-1])
            if ctor and re.match(r"std::(prelude::v1|option::Option|result::Result)::(Some|Ok|Err)$", v[1]):
                return ctor(args[0])
        if v is None or v[0] != "closure":
            raise LeavesFragment("call of a non-closure value")
        g = self.facts.F.get(v[1])
        if g is None:
            raise LeavesFragment("closure body %s not available" % v[1])
        env_ty = g.local_ty(1)
        env = v
        if env_ty.startswith("&"):
            env = V_ref(Cell(v))
        return self.call_fn(g, [env] + list(args))

    def rvalue(self, fn, frame, rv):
        k = rv["rv"]
        if k == "use":
            return self.operand(frame, rv["op"])
        if k == "copyderef":
            cell, path = self.place(frame, rv["pl"])
            return read_path(cell, path)
        if k == "ref":
            cell, path = self.place(frame, rv["pl"])
            return V_ref(cell, path)
        if k == "discr":
            cell, path = self.place(frame, rv["pl"])
            v = read_path(cell, path)
            if v is None or v[0] != "enum":
                raise LeavesFragment("discriminant of non-enum %s" % (v[0] if v else None))
            if v[1] == "std::cmp::Ordering":
                return V_int([255, 0, 1][v[2]])   # Less = -1 as u8
            return V_int(v[2])
        if k == "agg":
            ops = [self.operand(frame, o) for o in rv["ops"]]
            if rv["agg"] == "tuple":
                return V_tuple(ops)
            if rv["agg"] == "adt":
                a = self.facts.adts.get(rv["adt"])
                if a is not None and a["kind"] == "struct":
                    return V_struct(rv["adt"], ops)
                return V_enum(rv["adt"], self.vidx(rv["adt"], rv["variant"]), rv["variant"], ops)
            if rv["agg"] == "closure":
                return ("closure", rv["def"], ops)
            if rv["agg"] == "array":
                return V_opaque("array")
            raise LeavesFragment("unsupported aggregate %s" % rv["agg"])
        if k == "binop":
            a = self.operand(frame, rv["a"])
            b = self.operand(frame, rv["b"])
            if a[0] in ("int", "bool") and b[0] in ("int", "bool"):
                op = rv["op"]
                x, y = int(a[1]), int(b[1])
                table = {"Eq": x == y, "Ne": x != y, "Lt": x < y, "Le": x <= y, "Gt": x > y, "Ge": x >= y}
                if op in table:
                    return V_bool(table[op])
            if a[0] == "sym" and b[0] == "sym" and rv["op"] in ("Eq", "Ne", "Lt", "Le", "Gt", "Ge"):
                x, y = self.order[a[1]], self.order[b[1]]
                ty = "primitive"
                self.cmp_types.add(ty)
                self.cmp_log.append((rv["op"].lower(), a[1], b[1]))
                return V_bool({"Eq": x == y, "Ne": x != y, "Lt": x < y, "Le": x <= y, "Gt": x > y, "Ge": x >= y}[rv["op"]])
            if "sym" not in (a[0], b[0]) and "opaque" in (a[0], b[0]) and rv["op"] in ("Eq", "Ne", "Lt", "Le", "Gt", "Ge"):
                return V_opaque("unmodelled-comparison")
            raise LeavesFragment("arithmetic on a symbol / unsupported binop %s" % rv["op"])
        if k == "unop" and rv["op"] == "Not":
            a = self.operand(frame, rv["a"])
            if a[0] == "bool":
                return V_bool(not a[1])
            if a[0] == "opaque":
                return a
        if k == "cast":
            v = self.operand(frame, rv["op"])
            if "Unsize" in rv["kind"] or "ReifyFnPointer" in rv["kind"]:
                return v
            raise LeavesFragment("cast %s" % rv["kind"])
        raise LeavesFragment("unsupported rvalue %s" % k)


def explore(run, limit=512):
    """run(choices) -> (interp, outcome).  Enumerates every resolution of the run's nondeterministic branches;
    returns the list of outcomes (one per complete choice sequence)."""
    out = []
    pending = [[]]
    while pending:
        ch = pending.pop()
        it, res = run(ch)
        out.append(res)
        if len(out) > limit:
            raise LeavesFragment("more than %d nondeterministic paths" % limit)
        for i in range(len(ch), len(it.taken)):
            for alt in range(1, it.arities[i]):
                pending.append(it.taken[:i] + [alt])
    return out


# ---- summaries of std functions whose semantics are structural or order-preserving
def _opt(v, interp):
    v = interp.deref_all(v)
    if v is None or v[0] != "enum" or v[1] != "std::option::Option":
        raise LeavesFragment("expected an Option, got %s" % (v[0] if v else None))
    return v


def _s_option_map(interp, argv, t):
    o = _opt(argv[0], interp)
    if o[2] == 0:
        return V_none()
    return V_some(interp.call_closure(argv[1], o[4][0]))


def _res(v, interp):
    v = interp.deref_all(v)
    if v is None or v[0] != "enum" or v[1] != "std::result::Result":
        raise LeavesFragment("expected a Result, got %s" % (v[0] if v else None))
    return v


def _truth(v, interp):
    v = interp.deref_all(v)
    if v is None or v[0] != "bool":
        raise LeavesFragment("expected a bool")
    return v[1]


# Option / Result combinators are their defining `match` (std's documented semantics)
def _s_option_map_or(interp, argv, t):
    o = _opt(argv[0], interp)
    return argv[1] if o[2] == 0 else interp.call_closure(argv[2], o[4][0])


def _s_option_map_or_else(interp, argv, t):
    o = _opt(argv[0], interp)
    return interp.call_closure(argv[1]) if o[2] == 0 else interp.call_closure(argv[2], o[4][0])


def _s_option_is_some_and(interp, argv, t):
    o = _opt(argv[0], interp)
    return V_bool(False) if o[2] == 0 else interp.call_closure(argv[1], o[4][0])


def _s_option_is_none_or(interp, argv, t):
    o = _opt(argv[0], interp)
    return V_bool(True) if o[2] == 0 else interp.call_closure(argv[1], o[4][0])


def _s_option_and_then(interp, argv, t):
    o = _opt(argv[0], interp)
    return V_none() if o[2] == 0 else interp.call_closure(argv[1], o[4][0])


def _s_option_unwrap_or_else(interp, argv, t):
    o = _opt(argv[0], interp)
    return interp.call_closure(argv[1]) if o[2] == 0 else o[4][0]


def _s_option_filter(interp, argv, t):
    o = _opt(argv[0], interp)
    if o[2] == 0:
        return V_none()
    return o if _truth(interp.call_closure(argv[1], V_ref(Cell(o[4][0]))), interp) else V_none()


def _s_option_ok_or(interp, argv, t):
    o = _opt(argv[0], interp)
    return V_err(argv[1]) if o[2] == 0 else V_ok(o[4][0])


def _s_option_ok_or_else(interp, argv, t):
    o = _opt(argv[0], interp)
    return V_err(interp.call_closure(argv[1])) if o[2] == 0 else V_ok(o[4][0])


def _s_option_or(interp, argv, t):
    o = _opt(argv[0], interp)
    return argv[1] if o[2] == 0 else o


def _s_option_as_ref(interp, argv, t):
    o = _opt(argv[0], interp)
    return V_none() if o[2] == 0 else V_some(V_ref(Cell(o[4][0])))


def _s_result_map(interp, argv, t):
    r = _res(argv[0], interp)
    return V_ok(interp.call_closure(argv[1], r[4][0])) if r[2] == 0 else r


def _s_result_map_err(interp, argv, t):
    r = _res(argv[0], interp)
    return r if r[2] == 0 else V_err(interp.call_closure(argv[1], r[4][0]))


def _s_result_and_then(interp, argv, t):
    r = _res(argv[0], interp)
    return interp.call_closure(argv[1], r[4][0]) if r[2] == 0 else r


def _s_result_or_else(interp, argv, t):
    r = _res(argv[0], interp)
    return r if r[2] == 0 else interp.call_closure(argv[1], r[4][0])


def _s_result_map_or(interp, argv, t):
    r = _res(argv[0], interp)
    return interp.call_closure(argv[2], r[4][0]) if r[2] == 0 else argv[1]


def _s_result_map_or_else(interp, argv, t):
    r = _res(argv[0], interp)
    return interp.call_closure(argv[2], r[4][0]) if r[2] == 0 else interp.call_closure(argv[1], r[4][0])


def _s_result_is_ok(interp, argv, t):
    return V_bool(_res(argv[0], interp)[2] == 0)


def _s_result_is_err(interp, argv, t):
    return V_bool(_res(argv[0], interp)[2] == 1)


def _s_result_ok(interp, argv, t):
    r = _res(argv[0], interp)
    return V_some(r[4][0]) if r[2] == 0 else V_none()


def _s_result_err(interp, argv, t):
    r = _res(argv[0], interp)
    return V_some(r[4][0]) if r[2] == 1 else V_none()


def _s_result_unwrap_or(interp, argv, t):
    r = _res(argv[0], interp)
    return r[4][0] if r[2] == 0 else argv[1]


def _s_result_unwrap_or_else(interp, argv, t):
    r = _res(argv[0], interp)
    return r[4][0] if r[2] == 0 else interp.call_closure(argv[1], r[4][0])


def _s_bool_then(interp, argv, t):
    return V_some(interp.call_closure(argv[1])) if _truth(argv[0], interp) else V_none()


def _s_bool_then_some(interp, argv, t):
    return V_some(argv[1]) if _truth(argv[0], interp) else V_none()


def _ordering(i):
    return V_enum("std::cmp::Ordering", i, ["Less", "Equal", "Greater"][i], [])


def _s_cmp(interp, argv, t):
    (ra, na), (rb, nb) = interp.sym_rank(argv[0]), interp.sym_rank(argv[1])
    interp.cmp_log.append(("cmp", na, nb))
    return _ordering(0 if ra < rb else (1 if ra == rb else 2))


def _s_partial_cmp(interp, argv, t):
    return V_some(_s_cmp(interp, argv, t))


def _ord_pred(allowed):
    def f(interp, argv, t):
        v = interp.deref_all(argv[0])
        if v is None or v[0] != "enum" or v[1] != "std::cmp::Ordering":
            raise LeavesFragment("expected an Ordering")
        return V_bool(v[2] in allowed)
    return f


def _s_ord_reverse(interp, argv, t):
    v = interp.deref_all(argv[0])
    if v is None or v[0] != "enum" or v[1] != "std::cmp::Ordering":
        raise LeavesFragment("expected an Ordering")
    return _ordering(2 - v[2])


def _s_unwrap_or(interp, argv, t):
    o = _opt(argv[0], interp)
    return argv[1] if o[2] == 0 else o[4][0]


def _s_is_some(interp, argv, t):
    return V_bool(_opt(argv[0], interp)[2] == 1)


def _s_is_none(interp, argv, t):
    return V_bool(_opt(argv[0], interp)[2] == 0)


def _s_min(interp, argv, t):
    (ra, na), (rb, nb) = interp.sym_rank(argv[0]), interp.sym_rank(argv[1])
    interp.cmp_log.append(("min", na, nb))
    return argv[0] if ra <= rb else argv[1]


def _s_max(interp, argv, t):
    (ra, na), (rb, nb) = interp.sym_rank(argv[0]), interp.sym_rank(argv[1])
    interp.cmp_log.append(("max", na, nb))
    return argv[1] if rb >= ra else argv[0]


def _s_deref(interp, argv, t):
    # Arc<T>/Box<T>/&T are modelled as references: deref(&p) = p
    v = argv[0]
    if v[0] == "ref":
        inner = read_path(v[1], v[2])
        if inner is not None and inner[0] == "ref":
            return inner
        return v
    raise LeavesFragment("deref of non-reference")


def _s_identity(interp, argv, t):
    return argv[0]


def _s_try_branch(interp, argv, t):
    v = interp.deref_all(argv[0])
    if v[0] == "enum" and v[1] == "std::result::Result":
        if v[2] == 0:
            return V_enum("std::ops::ControlFlow", 0, "Continue", [v[4][0]])
        return V_enum("std::ops::ControlFlow", 1, "Break", [V_err(v[4][0])])
    if v[0] == "enum" and v[1] == "std::option::Option":
        if v[2] == 1:
            return V_enum("std::ops::ControlFlow", 0, "Continue", [v[4][0]])
        return V_enum("std::ops::ControlFlow", 1, "Break", [V_none()])
    raise LeavesFragment("Try::branch on %s" % v[0])


def _s_from_residual(interp, argv, t):
    return argv[0]


GENERIC_SUMMARIES = {
    "std::option::Option::<T>::map": _s_option_map,
    "std::option::Option::<T>::unwrap_or": _s_unwrap_or,
    "std::option::Option::<T>::map_or": _s_option_map_or,
    "std::option::Option::<T>::map_or_else": _s_option_map_or_else,
    "std::option::Option::<T>::is_some_and": _s_option_is_some_and,
    "std::option::Option::<T>::is_none_or": _s_option_is_none_or,
    "std::option::Option::<T>::and_then": _s_option_and_then,
    "std::option::Option::<T>::unwrap_or_else": _s_option_unwrap_or_else,
    "std::option::Option::<T>::filter": _s_option_filter,
    "std::option::Option::<T>::ok_or": _s_option_ok_or,
    "std::option::Option::<T>::ok_or_else": _s_option_ok_or_else,
    "std::option::Option::<T>::or": _s_option_or,
    "std::option::Option::<T>::as_ref": _s_option_as_ref,
    "std::result::Result::<T, E>::map": _s_result_map,
    "std::result::Result::<T, E>::map_err": _s_result_map_err,
    "std::result::Result::<T, E>::and_then": _s_result_and_then,
    "std::result::Result::<T, E>::or_else": _s_result_or_else,
    "std::result::Result::<T, E>::map_or": _s_result_map_or,
    "std::result::Result::<T, E>::map_or_else": _s_result_map_or_else,
    "std::result::Result::<T, E>::is_ok": _s_result_is_ok,
    "std::result::Result::<T, E>::is_err": _s_result_is_err,
    "std::result::Result::<T, E>::ok": _s_result_ok,
    "std::result::Result::<T, E>::err": _s_result_err,
    "std::result::Result::<T, E>::unwrap_or": _s_result_unwrap_or,
    "std::result::Result::<T, E>::unwrap_or_else": _s_result_unwrap_or_else,
    "std::cmp::Ord::cmp": _s_cmp,
    "std::cmp::PartialOrd::partial_cmp": _s_partial_cmp,
    "std::cmp::Ordering::is_lt": _ord_pred((0,)),
    "std::cmp::Ordering::is_le": _ord_pred((0, 1)),
    "std::cmp::Ordering::is_gt": _ord_pred((2,)),
    "std::cmp::Ordering::is_ge": _ord_pred((1, 2)),
    "std::cmp::Ordering::is_eq": _ord_pred((1,)),
    "std::cmp::Ordering::is_ne": _ord_pred((0, 2)),
    "std::cmp::Ordering::reverse": _s_ord_reverse,
    "std::bool::<impl bool>::then": _s_bool_then,
    "std::bool::<impl bool>::then_some": _s_bool_then_some,
    "core::bool::<impl bool>::then": _s_bool_then,
    "core::bool::<impl bool>::then_some": _s_bool_then_some,
    "std::option::Option::<T>::is_some": _s_is_some,
    "std::option::Option::<T>::is_none": _s_is_none,
    "std::cmp::min": _s_min,
    "std::cmp::max": _s_max,
    "std::cmp::Ord::min": _s_min,
    "std::cmp::Ord::max": _s_max,
    "std::ops::Deref::deref": _s_deref,
    "std::hint::must_use": _s_identity,
    "std::ops::Try::branch": _s_try_branch,
    "std::ops::FromResidual::from_residual": _s_from_residual,
    "std::clone::Clone::clone": lambda interp, argv, t: interp.deref_all(argv[0]) if interp.deref_all(argv[0])[0] in ("sym", "opaque", "int", "bool") else (_ for _ in ()).throw(LeavesFragment("clone of aggregate")),
}


def weak_orders(symbols):
    """All weak orders (ordered set partitions) of the symbols, as dict sym->rank."""
    symbols = list(symbols)
    n = len(symbols)
    if n == 0:
        yield {}
        return
    for ranks in itertools.product(range(n), repeat=n):
        used = sorted(set(ranks))
        if used != list(range(len(used))):
            continue
        yield dict(zip(symbols, ranks))


def order_str(order):
    """Render a weak order like a<b=c."""
    if not order:
        return "-"
    groups = {}
    for s, r in order.items():
        groups.setdefault(r, []).append(s)
    return "<".join("=".join(sorted(groups[r])) for r in sorted(groups))
