"""C16 — client disconnects affect handlers exactly as the task mode promises."""
import json
import re

from . import lib_c16 as L
from .lib import callers, closure_of_operand, result_split
from .lib_c16 import (SPAWN, after_await, await_payloads, awaits, give_up_sites, result_switches_of, slice_has_call_at,
                      spawned_coroutine, upvar_index_where, variant_edge, variant_flow)

LEVEL = "other"
TECHNIQUE = "static analysis: decision table of the task mode in http_request_handle's MIR (the body is explored once per value of config.default_handler_task_mode, following only edges feasible under that value: which execution context runs the handler), ownership tracking of the waitgroup worker, edge dominance for panic propagation"
LEVEL_TEXT = ("Decides on all paths of http_request_handle's MIR (current tree): the CancelOnDisconnect arm calls and awaits the handler inside the request future itself with no spawn "
              "on the arm, so dropping the request future drops the handler; the Detached arm runs the handler only inside the coroutine handed to tokio::spawn, nothing in the crate can "
              "abort a task, the spawned coroutine owns a clone of handler_waitgroup_worker and gives it up only after the handler future completed, the handler's result is what is sent "
              "on the oneshot whose receiver the request future awaits; each arm invokes the handler exactly once, outside any loop, on every path; resume_unwind is reachable only from "
              "the Err edge of the receiver await and re-raises the spawned task's own panic.  Not decided: that hyper drops the request future promptly on disconnect, that tokio runs a "
              "spawned task to completion and isolates panics per task (schedules, third-party).")
LEVEL_NOTE = "Trusts rustc MIR, the extractor, tokio::spawn (detaches; dropping a JoinHandle does not cancel), oneshot channel semantics, waitgroup::Worker (released on drop)."
EXPLANATION = ("Rules over the MIR of server::http_request_handle, its spawned coroutine, http_request_handle_wrap and Service::call from the current tree: TABLE (value of "
               "config.default_handler_task_mode -> execution context; the mode-specific parts of the body are found by conditional propagation of the enum variant through "
               "match / if let / matches! / == / copied locals / named flags, not by the shape of one switch), WHO-CALLS censuses (RouteHandler::handle_request, task abort APIs), ownership/give-up sites of the captured "
               "worker against the Ready edge of the handler await, SAME-SOURCE (tx/rx of one oneshot::channel; sent value is the handler result), resume_unwind reached only by executions in "
               "which `rx.await` produced Err (normalised view, the body explored under the hypotheses Ok / Err for the received value -- match, let-else, `.ok()` + if let, is_err() flag alike).")
TRUSTED = ["rustc nightly MIR", "mirfacts extractor", "rules/engine.py + rules/lib_c16.py", "tokio task / oneshot semantics", "waitgroup crate"]

HANDLE = r"handler::RouteHandler::handle_request$"
ABORT = r"JoinHandle::<T>::abort$|::abort_handle$|AbortHandle|task::JoinSet|AbortOnDropHandle"


MODE_ADT = "config::HandlerTaskMode"
MODE_FIELD = "default_handler_task_mode"


class _A:
    """Anchors shared by the rules (found by role).

    The two task modes are told apart by *hypothesis*, not by the shape of the test: the request future's MIR is
    explored once under "server.config.default_handler_task_mode is CancelOnDisconnect" and once under "... is
    Detached" (lib_c16.variant_flow: only edges an execution with that mode can take are followed, whether the mode
    is tested with match, if let, matches!, `==`, through a copied local or a named flag, or by an early return).
    A block is *exclusive* to a mode if it is reachable under that hypothesis and not under the other."""

    def __init__(self, ctx, R, D=None):
        self.D = D = D if D is not None else ctx.ds
        self.top = ctx.need_fn(D, R, r"^server::http_request_handle$")
        self.hb = hb = D.body_of(self.top)
        if not hb.raw.get("coroutine"):
            ctx.lost(R, "coroutine body of http_request_handle")
            raise _Lost()
        adt = D.adts.get(MODE_ADT)
        names = [v["name"] for v in adt["variants"]] if adt else []
        if sorted(names) != ["CancelOnDisconnect", "Detached"]:
            ctx.lost(R, "enum %s with exactly the variants CancelOnDisconnect and Detached (found %s)" % (MODE_ADT, names))
            raise _Lost()

        def is_mode(pl):
            return any(isinstance(e, dict) and e.get("n") == MODE_FIELD for e in pl["p"])
        self.names, self.is_mode = names, is_mode
        self.flow = {n: variant_flow(hb, assume=(lambda pl, i=i: i if is_mode(pl) else None)) for i, n in enumerate(names)}
        self.mode_from_config = all(f.used > 0 for f in self.flow.values())
        self.excl = {n: self.flow[n].reach - set().union(*[self.flow[m].reach for m in names if m != n]) for n in names}
        if not self.mode_from_config or not all(self.excl.values()):
            ctx.lost(R, "a test of server.config.%s in http_request_handle that separates the two task modes (tests decided by the mode: %s; blocks exclusive to a mode: %s)" % (
                MODE_FIELD, {n: f.used for n, f in self.flow.items()}, {n: len(x) for n, x in self.excl.items()}))
            raise _Lost()
        self.direct = hb.live_calls(HANDLE)
        self.spawns = hb.live_calls(SPAWN)

    def flow_also(self, mode, also):
        """The executions with task mode `mode` AND the further hypothesis `also(place) -> variant index | None`."""
        i = self.names.index(mode)
        return variant_flow(self.hb, assume=lambda pl: i if self.is_mode(pl) else also(pl), nested=True)

    def only(self, mode, bb):
        """Block bb runs only when the configured task mode is `mode`."""
        return bb in self.excl[mode]

    def under(self, mode, bb):
        """Block bb can run when the configured task mode is `mode`."""
        return bb in self.flow[mode].reach

    def heads(self, mode):
        """Entry blocks of the part of the function that is exclusive to `mode`."""
        ex = self.excl[mode]
        return sorted(b for b in ex if any(p not in ex for p in self.hb.preds(b) if p in self.flow[mode].reach))

    def always_passes(self, mode, sites):
        """With task mode `mode`, every path from the point where the modes part ways to a return passes one of `sites`."""
        rets = set(self.hb.returns())
        hs = self.heads(mode)
        return bool(hs) and not any(rets & self.hb.reachable(h, avoid=sites, avoid_edges=self.flow[mode].dead) for h in hs)

    def site(self, mode):
        hs = self.heads(mode)
        return (self.hb, hs[0]) if hs else self.hb


class _Lost(Exception):
    pass


def _anchors(ctx, R, D=None):
    try:
        return _A(ctx, R, D)
    except _Lost:
        return None


def r1_mode_table(ctx):
    R = ctx.rule("C16.R1", "task mode -> execution context: CancelOnDisconnect awaits handle_request inside the request future (no spawn on the arm); Detached runs it only inside the "
                 "coroutine given to tokio::spawn, which owns a clone of handler_waitgroup_worker until the handler future has completed and sends the handler result on the oneshot "
                 "the request future awaits; no task-abort API is used in the crate", floor=13)
    A = _anchors(ctx, R)
    if A is None:
        return
    hb = A.hb
    ctx.check(R, "mode-read-from-server-config", A.mode_from_config, "the two execution contexts are separated by a test of server.config.default_handler_task_mode: %s" % A.mode_from_config, A.site("Detached"))
    # ---- CancelOnDisconnect arm
    on_cancel = [(bb, t) for bb, t in A.direct if A.only("CancelOnDisconnect", bb)]
    on_det = [(bb, t) for bb, t in A.direct if A.only("Detached", bb)]
    other = [(bb, t) for bb, t in A.direct if (bb, t) not in on_cancel and (bb, t) not in on_det]
    ctx.check(R, "cancel-arm-calls-handler-in-request-future", len(on_cancel) == 1 and not other,
              "handle_request calls in the request future: %d reached only in CancelOnDisconnect mode, %d only in Detached mode, %d in either" % (len(on_cancel), len(on_det), len(other)), A.site("CancelOnDisconnect"))
    sp_c = [bb for bb, t in A.spawns if A.under("CancelOnDisconnect", bb)]
    ctx.check(R, "cancel-arm-has-no-spawn", not sp_c, "spawn calls the request future can reach in CancelOnDisconnect mode: %d" % len(sp_c), A.site("CancelOnDisconnect"))
    if len(on_cancel) == 1:
        cbb, ct = on_cancel[0]
        aws = awaits(hb, fut_call_bb=cbb)
        ok = len(aws) == 1 and aws[0]["ready"] is not None and A.only("CancelOnDisconnect", aws[0]["poll_bb"])
        ctx.check(R, "cancel-arm-awaits-handler-in-place", ok, "the future returned by handle_request is polled by the request future itself on that arm: %d await(s)" % len(aws), (hb, cbb))
        # the future is not handed to anything but the await plumbing
        tainted, sinks = hb.forward([ct["dest"]["l"]])
        leaked = sorted(set((n.get("callee") or "<indirect>") for b, k, n in sinks if k == "call" and
                            not _AWAIT_PLUMBING.search(n.get("callee") or "") and b != cbb and A.only("CancelOnDisconnect", b) and
                            not (aws and after_await(hb, aws[0], b))))
        ctx.check(R, "cancel-arm-handler-future-not-handed-off", not leaked, "calls receiving the un-awaited handler future: %s" % leaked, (hb, cbb))
    # ---- Detached arm
    in_det = [(bb, t) for bb, t in A.direct if A.under("Detached", bb)]
    ctx.check(R, "detached-arm-no-direct-handler-call", not in_det, "handle_request calls the request future itself can make in Detached mode: %d" % len(in_det), A.site("Detached"))
    sp_d = [(bb, t) for bb, t in A.spawns if A.only("Detached", bb)]
    ctx.check(R, "detached-arm-one-spawn", len(sp_d) == 1 and len(A.spawns) == 1, "spawn calls reached only in Detached mode: %d (in the whole function: %d)" % (len(sp_d), len(A.spawns)), A.site("Detached"))
    if len(sp_d) != 1:
        return
    sbb, st = sp_d[0]
    g, node = spawned_coroutine(hb, st)
    if g is None:
        ctx.lost(R, "the async block passed to tokio::spawn on the Detached arm")
        return
    inner = g.live_calls(HANDLE)
    nested = [(h.id, bb) for h in ctx.ds.descendants(g) for bb, t in h.live_calls(HANDLE)]
    ctx.check(R, "detached-handler-runs-in-spawned-task", len(inner) == 1 and not nested,
              "handle_request calls in the spawned coroutine: %d (in closures nested in it: %d)" % (len(inner), len(nested)), g)
    if len(inner) != 1:
        return
    ibb, it = inner[0]
    aws = awaits(g, fut_call_bb=ibb)
    if len(aws) != 1 or aws[0]["ready"] is None:
        ctx.lost(R, "the await of handle_request's future in the spawned coroutine")
        return
    aw = aws[0]
    # the worker: captured clone of server.handler_waitgroup_worker
    idx = upvar_index_where(hb, node, lambda sl: sl.reads_field("handler_waitgroup_worker") and sl.has_call(r"clone::Clone::clone$"))
    ctx.check(R, "spawned-task-captures-worker-clone", len(idx) == 1,
              "captured operands of the spawned coroutine that are a clone of handler_waitgroup_worker: %d (an async block only captures what it mentions)" % len(idx), (hb, sbb))
    if len(idx) == 1:
        sites = give_up_sites(g, 1, idx[0])
        early = [(bb, how) for bb, how in sites if not after_await(g, aw, bb)]
        ctx.check(R, "worker-held-until-handler-completed", bool(sites) and not early,
                  "the captured worker is given up at %d site(s); before the handler future completed: %s" % (len(sites), [h for _, h in early]),
                  (g, early[0][0]) if early else g)
        # the parent keeps no second copy whose drop could be mistaken for completion: irrelevant for safety
    # the result is sent on the oneshot whose receiver the request future awaits
    sends = g.live_calls(r"oneshot::Sender::<T>::send$")
    ok_send = False
    detail = "oneshot send sites in the spawned coroutine: %d" % len(sends)
    if len(sends) == 1:
        xbb, xt = sends[0]
        vs = g.slice(xt["args"][1])
        tx_caps = [a for a in g.slice(xt["args"][0]).param_fields() if a[0] == 1]
        tx_idx = set(int(e[1:].split(":")[0]) for _, proj in tx_caps for e in proj if e.startswith("f"))
        from_chan = False
        chan_bb = None
        for i in tx_idx:
            if i < len(node["rv"]["ops"]):
                cs = hb.slice(node["rv"]["ops"][i]).calls(r"oneshot::channel$")
                if len(cs) == 1:
                    from_chan, chan_bb = True, cs[0][1]
        rx_aw = [a for a in awaits(hb, fut_type_rx=r"oneshot::Receiver") if A.only("Detached", a["poll_bb"])]
        same = from_chan and len(rx_aw) == 1 and slice_has_call_at(hb.slice(rx_aw[0]["term"]["args"][0]), chan_bb)
        ok_send = slice_has_call_at(vs, ibb) and after_await(g, aw, xbb) and same and g.must_pass([xbb], start=aw["ready"])
        detail = ("sent value is the handler's result=%s; sent after the handler completed=%s; sender and the awaited receiver come from one oneshot::channel()=%s; "
                  "sent on every path after completion=%s" % (slice_has_call_at(vs, ibb), after_await(g, aw, xbb), same, g.must_pass([xbb], start=aw["ready"])))
    ctx.check(R, "detached-result-delivered-through-oneshot", ok_send, detail, g)
    # nothing can cancel a spawned handler
    ab = [(f.id, bb) for f, bb, t in callers(ctx.ds, ABORT) if not f.id.startswith("test_util")]
    ctx.check(R, "no-task-abort-api-in-crate", not ab, "calls to JoinHandle::abort / AbortHandle / JoinSet in the crate: %s" % ab, hb)
    # the join handle is only awaited / dropped by the request future
    jl = st["dest"]["l"]
    tainted, sinks = hb.forward([jl])
    bad = sorted(set((n.get("callee") or "<indirect>") for b, k, n in sinks if k == "call" and not _JOIN_OK.search(n.get("callee") or "")))
    ctx.check(R, "join-handle-only-awaited", not bad, "calls reached by the spawned handler's JoinHandle other than await plumbing / panic extraction: %s" % bad, (hb, sbb))


_AWAIT_PLUMBING = re.compile(r"IntoFuture::into_future$|Future::poll$|Pin::<Ptr>::new_unchecked$|Pin::<Ptr>::new$|ops::Try::branch$|FromResidual::from_residual$|get_context$")
_JOIN_OK = re.compile(_AWAIT_PLUMBING.pattern + r"|Result::<T, E>::expect_err$|Result::<T, E>::unwrap_err$|JoinError::into_panic$|JoinError::is_panic$|panic::resume_unwind$|mem::drop$|"
                      r"Result::<T, E>::(is_err|is_ok|err|ok)$|Option::<T>::(unwrap|expect)$|JoinError::try_into_panic$")


def r2_exactly_once(ctx):
    R = ctx.rule("C16.R2", "exactly one handler invocation per request: one handle_request call site per task mode, outside any loop, on every path of its arm; the request entry points "
                 "call down exactly once", floor=7)
    A = _anchors(ctx, R)
    if A is None:
        return
    hb = A.hb
    all_calls = [(f, bb) for f, bb, t in callers(ctx.ds, HANDLE) if not f.id.startswith("test_util")]
    under = [hb] + ctx.ds.descendants(hb)
    for sbb0, st0 in A.spawns:      # the task body may be an `async fn` called in the spawn argument
        g0, _n0 = spawned_coroutine(hb, st0)
        if g0 is not None and g0 not in under:
            under += [g0] + ctx.ds.descendants(g0)
    outside = [(f.id, bb) for f, bb in all_calls if f not in under]
    ctx.check(R, "handler-call-census", len(all_calls) == 2 and not outside,
              "RouteHandler::handle_request call sites in the crate: %d; outside http_request_handle and its spawned task: %s" % (len(all_calls), outside), hb)
    loops = hb.loop_blocks()
    on_cancel = [(bb, t) for bb, t in A.direct if A.only("CancelOnDisconnect", bb)]
    if len(on_cancel) == 1:
        cbb = on_cancel[0][0]
        passes = A.always_passes("CancelOnDisconnect", [cbb])
        ctx.check(R, "cancel-arm-once", passes and cbb not in loops, "in CancelOnDisconnect mode every path from where the modes part ways to a return passes the call=%s; call inside a loop=%s" % (passes, cbb in loops), (hb, cbb))
    else:
        ctx.check(R, "cancel-arm-once", False, "%d handle_request calls reached only in CancelOnDisconnect mode" % len(on_cancel), A.site("CancelOnDisconnect"))
    sp_d = [(bb, t) for bb, t in A.spawns if A.only("Detached", bb)]
    if len(sp_d) == 1:
        sbb, st = sp_d[0]
        passes = A.always_passes("Detached", [sbb])
        ctx.check(R, "detached-arm-spawns-once", passes and sbb not in loops, "in Detached mode every path from where the modes part ways to a return passes the spawn=%s; spawn inside a loop=%s" % (passes, sbb in loops), (hb, sbb))
        g, node = spawned_coroutine(hb, st)
        if g is None:
            ctx.lost(R, "the async block passed to tokio::spawn on the Detached arm")
        else:
            inner = g.live_calls(HANDLE)
            ok = len(inner) == 1 and g.must_pass([inner[0][0]]) and inner[0][0] not in g.loop_blocks()
            ctx.check(R, "spawned-task-calls-handler-once", ok, "handle_request sites in the spawned coroutine: %d; on every path and outside loops: %s" % (len(inner), ok), g)
    else:
        ctx.check(R, "detached-arm-spawns-once", False, "%d spawn calls reached only in Detached mode" % len(sp_d), A.site("Detached"))
    # the point where the modes part ways is not in a loop (the poll loops of the awaits are inside the arms)
    hs = A.heads("CancelOnDisconnect") + A.heads("Detached")
    cyc = [b for b in hs if b in loops]
    ctx.check(R, "mode-switch-not-in-loop", bool(hs) and not cyc, "entry blocks of the mode-specific parts that lie on a cycle: %d of %d" % (len(cyc), len(hs)), (hb, hs[0]) if hs else hb)
    # entry points
    wrap = ctx.need_fn(ctx.ds, R, r"^server::http_request_handle_wrap$")
    wb = ctx.ds.body_of(wrap)
    cs = wb.live_calls(r"^server::http_request_handle$")
    ok = len(cs) == 1 and cs[0][0] not in wb.loop_blocks() and wb.must_pass([cs[0][0]])
    who = [(f.id, bb) for f, bb, t in callers(ctx.ds, r"^server::http_request_handle$")]
    ctx.check(R, "wrap-calls-handle-once", ok and len(who) == 1, "http_request_handle call sites in http_request_handle_wrap: %d (crate-wide %d); outside loops and on every path: %s" % (len(cs), len(who), ok), wb)
    who = [(f, bb) for f, bb, t in callers(ctx.ds, r"^server::http_request_handle_wrap$")]
    ok = len(who) == 1 and who[0][1] not in who[0][0].loop_blocks() and who[0][0].must_pass([who[0][1]]) and "Service" in who[0][0].id
    ctx.check(R, "service-call-calls-wrap-once", ok, "http_request_handle_wrap is called from %s" % [f.id for f, _ in who], who[0] if who else None)


def r3_panic_propagation(ctx):
    R = ctx.rule("C16.R3", "resume_unwind is reachable only from the Err edge of `rx.await` in the Detached arm and re-raises the panic taken from the spawned task's JoinHandle; "
                 "the Ok edge yields the handler's result", floor=5)
    # normalised view: `rx.await.ok()` + `if let Some(result) = .. else ..`, `rx.await.map_err(..)`, `let Ok(result) = rx.await else {..}` and
    # `match rx.await {Ok.., Err..}` are one program there (the combinator is a switch on the received Result whose exits are threaded
    # to the arms of the test that follows)
    D = ctx.dsn
    A = _anchors(ctx, R, D)
    if A is None:
        return
    hb = A.hb
    ru = [(f, bb, t) for f, bb, t in callers(D, r"panic::resume_unwind$|panic::panic_any$") if not f.id.startswith("test_util")]
    ctx.check(R, "resume-unwind-census", len(ru) == 1 and ru[0][0] is hb, "resume_unwind / panic_any call sites in the crate: %s" % [(f.id) for f, _, _ in ru], hb)
    rx_aw = [a for a in awaits(hb, fut_type_rx=r"oneshot::Receiver") if A.only("Detached", a["poll_bb"])]
    if len(rx_aw) != 1 or rx_aw[0]["ready"] is None:
        ctx.lost(R, "the await on the oneshot receiver in the Detached arm (%d found)" % len(rx_aw))
        return
    aw = rx_aw[0]
    # The two outcomes of the receive are told apart by hypothesis, like the task modes: the body is explored once under "Detached mode and
    # `rx.await` produced Ok" and once under "... produced Err" (lib_c16.variant_flow follows only the edges such an execution can take:
    # through match / if let / let-else on the received value, through the Option that `.ok()` makes of it, through is_ok()/is_err() flags).
    received = set(await_payloads(hb, aw))
    if not received:
        ctx.lost(R, "the value produced by `rx.await`")
        return

    def got(i):
        return lambda pl: i if (pl["l"] in received and not pl["p"]) else None
    f_ok, f_err = A.flow_also("Detached", got(0)), A.flow_also("Detached", got(1))
    only_ok = f_ok.reach - f_err.reach - A.flow["CancelOnDisconnect"].reach
    only_err = f_err.reach - f_ok.reach - A.flow["CancelOnDisconnect"].reach
    site = (hb, aw["poll_bb"])
    if not only_ok or not only_err:
        ctx.lost(R, "a test of the Result of `rx.await` that separates `a result was received` from `the sender was dropped` (blocks run only after Ok: %d, only after Err: %d)" % (len(only_ok), len(only_err)))
        return
    sp_d = [(bb, t) for bb, t in A.spawns if A.only("Detached", bb)]
    for f, bb, t in ru:
        if f is not hb:
            continue
        dom = bb in only_err
        ctx.check(R, "resume-unwind-only-on-recv-error", dom, "resume_unwind %s run only when rx.await produced Err (sender dropped without a result: the handler task died)" % ("is" if dom else "is NOT"), (hb, bb))
        sl = hb.slice(t["args"][0])
        own = sl.has_call(r"JoinError::(into_panic|try_into_panic)$") and len(sp_d) == 1 and slice_has_call_at(sl, sp_d[0][0])
        ctx.check(R, "resume-unwind-reraises-the-task-panic", own, "the payload is JoinError::into_panic() of the JoinHandle returned by the Detached arm's spawn: %s" % own, (hb, bb))
    # Ok: the response is the received result
    # (the received value is itself the handler's Result: it is taken apart -- by `?`, a match, if let .. -- and the function's own result
    # derives from it; where it is taken apart does not matter: inside the arm (`Ok(result) => result?`) or after the two task modes
    # joined again, when both arms evaluate to the handler's Result and one `?` follows the match / the awaited helper)
    inner = [s2 for s2, i2 in result_switches_of(hb, aw["dest"], r"^std::result::Result$|^std::ops::ControlFlow$") if s2 in f_ok.reach and "RecvError" not in i2.get("ty", "")]
    resp_ok = bool(inner) and hb.slice({"l": 0, "p": []}).touches_local(aw["dest"])
    ctx.check(R, "ok-edge-uses-received-result", resp_ok, "when a result was received it is taken apart (%d test(s)) and feeds the request future's own result: %s" % (len(inner), resp_ok), site)
    # no panic when a result was received
    div = [b for b in only_ok if hb.blocks[b]["term"]["t"] == "call" and "to" not in hb.blocks[b]["term"]]
    ctx.check(R, "ok-edge-does-not-diverge", not div, "diverging calls run only when rx.await produced Ok: %d" % len(div), (hb, div[0]) if div else site)



def r4_connection_config_shared(ctx):
    """Added after adversary change C16-B (`builder.http1().half_close(true)` on the TLS accept arm only: hyper then stops
    watching a pending request's read side for EOF, so a disconnecting HTTPS client no longer cancels its handler)."""
    from .lib_c16 import server_task
    from .lib import const_int
    R = ctx.rule("C16.R4", "the hyper connection builder is configured once, before the transport switch (every configuration call dominates both serve_connection sites), "
                 "so HTTP and HTTPS connections detect disconnects identically; HTTP/1 half-close is never enabled", floor=3)
    stt = server_task(ctx.ds)
    if isinstance(stt, str):
        ctx.lost(R, stt)
        return
    st, sp, co, node = stt
    serves = co.live_calls(r"auto::Builder::<E>::serve_connection(_with_upgrades)?$")
    ctx.check(R, "serve-sites", len(serves) == 2, "connection-serving call sites in the server task: %d (HTTP and HTTPS)" % len(serves), co)
    cfg = [(bb, t) for bb, t in co.live_calls(r"auto::(Builder::<E>|Http1Builder::<'_, E>|Http2Builder::<'_, E>)::") if not re.search(r"::(new|serve_connection(_with_upgrades)?)$", t["callee"])]
    for bb, t in cfg:
        name = t["callee"].split("auto::")[-1]
        shared = all(co.dominates(bb, sbb) for sbb, _ in serves)
        ctx.check(R, "config-call:%s" % name, shared, "builder configuration `%s` %s both serve sites%s" % (name, "dominates" if shared else "does NOT dominate",
                  "" if shared else " — one transport is configured differently from the other"), (co, bb))
    for g in [co] + ctx.ds.descendants(co) + [st]:
        for bb, t in g.live_calls(r"half_close$"):
            v = const_int(t["args"][1]) if len(t["args"]) > 1 else None
            ctx.check(R, "half-close-disabled", v == 0, "half_close(%s): with half-close allowed hyper does not treat the client's EOF as a disconnect while a response is pending" % ("true" if v else v), (g, bb))
    # the same builder value serves both
    same = len(serves) == 2 and all(co.slice(t["args"][0]).has_call(r"auto::Builder::<E>::new$") for _, t in serves)
    ctx.check(R, "one-builder", same, "both serve sites use the builder created once at the top of the task: %s" % same, co)


def r5_disconnect_record_only_when_dropped(ctx):
    """Added after adversary change C16-E: an early `return` on the error path skipped the defusing of the scope guard, so every
    request answered with an error was also recorded (log record, 499 probe) as cancelled by a client disconnect."""
    R = ctx.rule("C16.R5", "a request is recorded as `cancelled (client disconnected)` only when its future is dropped mid-handler: the scope guard armed before "
                 "http_request_handle(..).await is defused (ScopeGuard::into_inner of that guard) on every path from the completion of that await to the return of http_request_handle_wrap", floor=4)
    ds = ctx.ds
    top = ctx.need_fn(ds, R, r"^server::http_request_handle_wrap$")
    w = ds.body_of(top)
    guards = w.live_calls(r"^scopeguard::guard$")
    aws = [a for a in L.awaits(w) if re.search(r"^server::http_request_handle::\{closure#\d+\}$", a["term"].get("resolved") or "")]
    ctx.check(R, "one-guard-one-handler-await", len(guards) == 1 and len(aws) == 1, "scopeguard::guard sites: %d; awaits of http_request_handle: %d" % (len(guards), len(aws)), w)
    if len(guards) != 1 or len(aws) != 1:
        return
    gbb, gt = guards[0]
    aw = aws[0]
    ctx.check(R, "armed-before-the-handler-runs", w.dominates(gbb, aw["poll_bb"]), "the guard is created on every path to the await of http_request_handle", (w, gbb))
    defuse = [bb for bb, t in w.live_calls(r"^scopeguard::ScopeGuard::<T, F, S>::into_inner$") if L.slice_has_call_at(w.slice(t["args"][0]), gbb)]
    ok_after = bool(defuse) and all(L.after_await(w, aw, bb) for bb in defuse)
    ctx.check(R, "defused-only-after-completion", ok_after, "ScopeGuard::into_inner(<that guard>) sites: %d, all after the Ready edge of the await: %s" % (len(defuse), ok_after), (w, defuse[0]) if defuse else w)
    ok_all = bool(defuse) and aw["ready"] is not None and w.must_pass(defuse, start=aw["ready"])
    ctx.check(R, "defused-on-every-path-to-the-response", ok_all,
              "every path from the completed await to a return of http_request_handle_wrap defuses the guard (otherwise its drop records a disconnect for a request that was answered): %s" % ok_all,
              (w, aw["poll_bb"]))


def r7_orphaned_result_is_recorded(ctx):
    """Added after adversary change C16-L (`let _ = tx.send(result);` replaced the block that logged a result nobody was waiting for: a
    detached handler that outlived its client then left `cancelled (client disconnected)` as the only record of a request that in fact
    ran to completion, and its error, if any, was lost): a started handler ends exactly one way and that end is recorded -- when the
    result cannot be handed to the waiting request future it is logged on every path."""
    R = ctx.rule("C16.R7", "in the detached task the result of the handler is sent to the request future, and the failure edge of that send (the future was cancelled) passes a log "
                 "record on every path: the completion of an orphaned handler is never dropped silently", floor=2)
    ds = ctx.dsn
    top = ctx.need_fn(ds, R, r"^server::http_request_handle$")
    hb = ds.body_of(top)
    tasks = [g for g in ds.descendants(hb) if g.raw.get("coroutine") and g.live_calls(r"oneshot::Sender::<T>::send$")]
    ctx.check(R, "one-detached-task-sends-the-result", len(tasks) == 1, "spawned tasks under http_request_handle that send on the oneshot channel: %d" % len(tasks), hb)
    for g in tasks:
        for bb, t in g.live_calls(r"oneshot::Sender::<T>::send$"):
            sp = result_split(g, t["dest"]["l"]) if not t["dest"]["p"] else None
            # a slog macro is `if level <= max_level { logger.log(record) }`: its entry is the level test
            logs = [b for b, _ in g.live_calls(r"^slog::Level::as_usize$|^slog::Logger::<D>::log$|slog::Logger::log$")]
            ok = sp is not None and sp["err"] is not None and sp["err"] != sp["ok"] and bool(logs) and g.must_pass(logs, start=sp["err"])
            ctx.check(R, "send-failure-is-logged", ok, "the Err edge of tx.send(result) %s" % (
                "passes a log record on every path" if ok else "is not examined (the result of send is discarded)" if sp is None else "can reach the end of the task without a log record"), (g, bb))


def r6_configured_mode_reaches_the_dispatch(ctx):
    """Added after adversary change C16-F: the legacy constructor rebuilt the configuration from "the knobs it always exposed" with
    `..Default::default()`, silently replacing a configured CancelOnDisconnect by the default Detached."""
    from .lib_c01 import access_path, VALUE_PRESERVING
    R = ctx.rule("C16.R6", "the task mode the dispatch reads is the one the caller configured: ServerConfig.default_handler_task_mode is copied from the constructor's `config`, every "
                 "ServerBuilder::config(..) call in the crate hands over its own `config` parameter unmodified, and ConfigDropshot values are built only by Default / Clone / the "
                 "deserialisation conversion, which carries the field over", floor=5)
    ds = ctx.ds
    ni = ctx.need_fn(ds, R, r"^server::HttpServerStarter::<C>::new_internal$")
    aggs = [(bb, st) for bb, i, st in ni.aggregates(r"^server::ServerConfig$") if bb in ni.reachable(0)]
    allsc = [(f.id, bb) for f in ds.F.values() if not f.id.startswith("test_util") for bb, i, st in f.aggregates(r"^server::ServerConfig$")]
    ctx.check(R, "one-ServerConfig-site", len(aggs) == 1 and len(allsc) == 1, "ServerConfig is built at %s" % allsc, ni)
    for bb, st in aggs:
        names = st["rv"].get("fields") or []
        if "default_handler_task_mode" not in names:
            ctx.lost(R, "field ServerConfig.default_handler_task_mode")
            continue
        p = access_path(ni, st["rv"]["ops"][names.index("default_handler_task_mode")], VALUE_PRESERVING)
        ok = p.kind() == "param" and p.path == ["default_handler_task_mode"] and "ConfigDropshot" in ni.local_ty(p.root_local())
        ctx.check(R, "mode-copied-from-config", ok, "ServerConfig.default_handler_task_mode = %r" % p, (ni, bb))
    n = 0
    for f in ds.F.values():
        if f.id.startswith("test_util"):
            continue
        for bb, t in f.live_calls(r"^server::ServerBuilder::<C>::config$"):
            n += 1
            p = access_path(f, t["args"][1], VALUE_PRESERVING)
            ok = p.kind() == "param" and not p.path and "ConfigDropshot" in f.local_ty(p.root_local())
            ctx.check(R, "builder-gets-the-callers-config:%s" % f.id, ok, "ServerBuilder::config(%r) in %s" % (p, f.id), (f, bb))
    ctx.check(R, "builder-config-callers", n >= 1, "ServerBuilder::config call sites outside test_util: %d" % n, ni, nontrivial=False)
    allowed = {"<config::ConfigDropshot as std::clone::Clone>::clone": None, "<config::ConfigDropshot as std::default::Default>::default": None,
               "<config::ConfigDropshot as std::convert::From<config::DeserializedConfigDropshot>>::from": "carry"}
    for f in ds.F.values():
        for bb, i, st in f.aggregates(r"^config::ConfigDropshot$"):
            if bb not in f.reachable(0):
                continue
            if f.id not in allowed:
                ctx.check(R, "ConfigDropshot-built-in:%s" % f.id, False, "a ConfigDropshot value is assembled in %s: fields not listed there silently take their defaults (the configured task mode can be lost)" % f.id, (f, bb))
                continue
            if allowed[f.id] == "carry":
                names = st["rv"].get("fields") or []
                p = access_path(f, st["rv"]["ops"][names.index("default_handler_task_mode")], VALUE_PRESERVING) if "default_handler_task_mode" in names else None
                ok = p is not None and p.kind() == "param" and p.path == ["default_handler_task_mode"]
                ctx.check(R, "ConfigDropshot-conversion-carries-the-mode", ok, "From<DeserializedConfigDropshot>: default_handler_task_mode = %r" % p, (f, bb))
    # Added after adversary change C16-I (the serialising conversion From<ConfigDropshot> for DeserializedConfigDropshot took "the rest" from
    # `..Default::default()`, so a CancelOnDisconnect configuration written to TOML/JSON by a supervisor and read back came up Detached):
    # the wire form of the configuration carries the mode too
    back = ds.one(r"^<config::DeserializedConfigDropshot as std::convert::From<config::ConfigDropshot>>::from$")
    if back is None:
        ctx.lost(R, "From<ConfigDropshot> for DeserializedConfigDropshot (the `serde(into)` conversion)")
    else:
        sites = [(bb, st) for bb, i, st in back.aggregates(r"^config::DeserializedConfigDropshot$") if bb in back.reachable(0)]
        okb = bool(sites)
        shown = []
        for bb, st in sites:
            names = st["rv"].get("fields") or []
            p = access_path(back, st["rv"]["ops"][names.index("default_handler_task_mode")], VALUE_PRESERVING) if "default_handler_task_mode" in names else None
            shown.append(repr(p))
            okb = okb and p is not None and p.kind() == "param" and p.path == ["default_handler_task_mode"]
        ctx.check(R, "serialised-config-carries-the-mode", okb, "From<ConfigDropshot> for DeserializedConfigDropshot: default_handler_task_mode = %s" % (shown or "no aggregate"), back)
    # Added after adversary change C16-K (`#[derive(Default)]` with `#[default]` on the first variant, CancelOnDisconnect, and
    # ConfigDropshot::default() switched to `Default::default()`: every server that does not name a mode silently changed from
    # running handlers to completion to cancelling them on disconnect): the mode of a configuration that names none is Detached
    dflt = ds.one(r"^<config::ConfigDropshot as std::default::Default>::default$")
    if dflt is None:
        ctx.lost(R, "Default for ConfigDropshot")
    else:
        variants = set()
        for bb, i, st in dflt.aggregates(r"^config::ConfigDropshot$"):
            names = st["rv"].get("fields") or []
            if "default_handler_task_mode" not in names or bb not in dflt.reachable(0):
                continue
            sl = dflt.slice(st["rv"]["ops"][names.index("default_handler_task_mode")])
            for a in sl.atoms:
                if a[0] == "agg" and a[1] == "config::HandlerTaskMode":
                    variants.add(a[2])
                elif a[0] == "const":
                    # a named constant of the mode type: its evaluated value
                    try:
                        v = json.loads(a[2]) or {}
                    except Exception:
                        v = {}
                    if v.get("adt") == "config::HandlerTaskMode" and v.get("variant"):
                        variants.add(v["variant"])
                    else:
                        variants.add("<constant %s>" % a[1])
            for c, cb, ct in sl.callees:
                # `Default::default()` of the mode type: what that impl returns
                tgt = ds.F.get(ct.get("resolved") or "") or ds.one(r"^<config::HandlerTaskMode as std::default::Default>::default$")
                if tgt is not None and re.search(r"HandlerTaskMode", tgt.id):
                    for a in tgt.slice({"l": 0, "p": []}).atoms:
                        if a[0] == "agg" and a[1] == "config::HandlerTaskMode":
                            variants.add(a[2])
                else:
                    variants.add("<%s>" % c)
        ctx.check(R, "unnamed-mode-is-detached", variants == {"Detached"}, "ConfigDropshot::default().default_handler_task_mode can be: %s (documented default: Detached)" % (sorted(variants) or "unknown"), dflt)
    # Added after adversary change C16-M (`#[serde(other)]` on the Detached variant, "falls back to the safe choice": a misspelt
    # `cancel_on_disconnect` in a TOML/JSON configuration was accepted and the server ran Detached): the configuration parser
    # refuses a mode name it does not know -- the variant-name visitors keep their `unknown_variant` error
    vis = [f for k, f in ds.F.items() if "HandlerTaskMode" in k and "__FieldVisitor" in k and re.search(r"::visit_(str|bytes)$", k)]
    ctx.check(R, "mode-name-visitors", len(vis) >= 2, "variant-name visitors of HandlerTaskMode's Deserialize impl: %d" % len(vis), None, nontrivial=False)
    for f in vis:
        ok = bool(f.live_calls(r"de::Error::unknown_variant$"))
        ctx.check(R, "unknown-mode-name-is-refused:%s" % f.id.rsplit("::", 1)[-1], ok, "%s ends in Error::unknown_variant for names that are not modes: %s (a catch-all variant would turn any misspelling into a mode)" % (f.id.rsplit("::", 1)[-1], ok), f)


def r8_responses_of_connected_clients_are_delivered(ctx):
    """`handlers of clients that stay connected complete and their responses are delivered`: the crate never asks the kernel for an
    abortive close of a served connection (SO_LINGER), which would discard response bytes still queued when the server closes it.
    This is the census of C17.R5, re-evaluated here (adversary change C16-N: zero linger on accepted plain-HTTP sockets)."""
    from . import c17
    from .lib_c01 import Renamed
    c17.r5_listener_owned(Renamed(ctx, "C16.R8", "no served connection is configured for an abortive close (SO_LINGER is never set): a completed handler's response is not cut short by the close"))


RULES = [("C16.R8", r8_responses_of_connected_clients_are_delivered), ("C16.R7", r7_orphaned_result_is_recorded), ("C16.R6", r6_configured_mode_reaches_the_dispatch), ("C16.R5", r5_disconnect_record_only_when_dropped), ("C16.R4", r4_connection_config_shared), ("C16.R1", r1_mode_table), ("C16.R2", r2_exactly_once), ("C16.R3", r3_panic_propagation)]

_S = "dropshot/src/server.rs"
SELFTEST = [
    {"name": "arms-swapped", "kind": "mutant", "why": "CancelOnDisconnect would run detached and Detached would be cancelled on disconnect",
     "edits": [(_S, "        HandlerTaskMode::CancelOnDisconnect => {\n            // For CancelOnDisconnect, we run", "        HandlerTaskMode::Detached => {\n            // For CancelOnDisconnect, we run"),
               (_S, "        HandlerTaskMode::Detached => {\n            // Spawn the handler so", "        HandlerTaskMode::CancelOnDisconnect => {\n            // Spawn the handler so")],
     "expect": ["C16.R1"]},
    {"name": "abort-on-error-edge", "kind": "mutant", "why": "a detached handler task could be aborted by the request future",
     "edits": [(_S, "                    error!(request_log, \"handler panicked; propogating panic\");", "                    error!(request_log, \"handler panicked; propogating panic\");\n                    handler_task.abort();")],
     "expect": ["C16.R1"]},
    {"name": "worker-dropped-before-handler", "kind": "mutant", "why": "graceful shutdown would not wait for a detached handler that is still running",
     "edits": [(_S, "                let request_log = rqctx.log.clone();\n                let result = handler.handle_request(rqctx, request).await;", "                let request_log = rqctx.log.clone();\n                mem::drop(worker);\n                let result = handler.handle_request(rqctx, request).await;"),
               (_S, "                // complete (if it's waiting on us).\n                mem::drop(worker);", "                // complete (if it's waiting on us).")],
     "expect": ["C16.R1"]},
    {"name": "worker-not-captured", "kind": "mutant", "why": "the worker clone stays with the cancellable request future; a detached handler is no longer tracked after a disconnect",
     "edits": [(_S, "                // complete (if it's waiting on us).\n                mem::drop(worker);", "                // complete (if it's waiting on us).")],
     "expect": ["C16.R1"]},
    {"name": "handler-error-resumes-unwind", "kind": "mutant", "why": "a handler *error* (no panic) would unwind the connection task",
     "edits": [(_S, "                Ok(result) => result?,", "                Ok(result) => match result { Ok(r) => r, Err(_) => panic::resume_unwind(Box::new(\"handler error\")) },")],
     "expect": ["C16.R3"]},
    {"name": "cancel-arm-spawns", "kind": "mutant", "why": "in CancelOnDisconnect mode the handler would survive a disconnect",
     "edits": [(_S, "            handler.handle_request(rqctx, request).await?\n", "            tokio::spawn(async move { handler.handle_request(rqctx, request).await }).await.unwrap()?\n")],
     "expect": ["C16.R1"]},
    {"name": "task-early-return", "kind": "mutant", "why": "the spawned task can finish without ever running the handler (and gives up the worker before it)",
     "edits": [(_S, "                let result = handler.handle_request(rqctx, request).await;\n", "                if rqctx.request_id.is_empty() { return; }\n                let result = handler.handle_request(rqctx, request).await;\n")],
     "expect": ["C16.R2"]},
    {"name": "rename-locals", "kind": "benign", "why": "behaviour-preserving: locals renamed",
     "edits": [(_S, "            let worker = server.handler_waitgroup_worker.clone();", "            let wg_guard = server.handler_waitgroup_worker.clone();"),
               (_S, "                mem::drop(worker);", "                mem::drop(wg_guard);"),
               (_S, "            let (tx, rx) = oneshot::channel();", "            let (tx, result_rx) = oneshot::channel();"),
               (_S, "            match rx.await {", "            match result_rx.await {")]},
    {"name": "if-let-instead-of-match", "kind": "benign", "why": "behaviour-preserving: the two-arm match on the mode written as if-let / else",
     "edits": [(_S, "    let mut response = match server.config.default_handler_task_mode {\n        HandlerTaskMode::CancelOnDisconnect => {", "    let mut response = if let HandlerTaskMode::CancelOnDisconnect = server.config.default_handler_task_mode {\n        {"),
               (_S, "        HandlerTaskMode::Detached => {\n            // Spawn the handler so", "        } else {\n            // Spawn the handler so"),
               (_S, "                    panic::resume_unwind(task_err.into_panic());\n                }\n            }\n        }\n    };", "                    panic::resume_unwind(task_err.into_panic());\n                }\n            }\n        }\n    ;")]},
    {"name": "worker-bound-at-top-of-task", "kind": "benign", "why": "behaviour-preserving: the worker is moved into a local at the start of the task and dropped at scope end (after the handler and the send)",
     "edits": [(_S, "                let request_log = rqctx.log.clone();\n                let result = handler.handle_request(rqctx, request).await;", "                let _held_until_done = worker;\n                let request_log = rqctx.log.clone();\n                let result = handler.handle_request(rqctx, request).await;"),
               (_S, "                // complete (if it's waiting on us).\n                mem::drop(worker);", "                // complete (if it's waiting on us).")]},
    {"name": "extra-logging", "kind": "benign", "why": "behaviour-preserving: log lines added on both arms and in the task",
     "edits": [(_S, "            let (tx, rx) = oneshot::channel();", "            debug!(rqctx.log, \"running handler detached\");\n            let (tx, rx) = oneshot::channel();"),
               (_S, "                let result = handler.handle_request(rqctx, request).await;\n", "                let result = handler.handle_request(rqctx, request).await;\n                debug!(request_log, \"detached handler finished\");\n")]},
    {"name": "await-split", "kind": "benign", "why": "behaviour-preserving: the handler future is bound to a local before being awaited; the received result is bound before `?`",
     "edits": [(_S, "            handler.handle_request(rqctx, request).await?\n", "            let fut = handler.handle_request(rqctx, request);\n            let r = fut.await;\n            r?\n"),
               (_S, "                Ok(result) => result?,", "                Ok(result) => { let r = result; r? }")]},
    {"name": "mode-tested-with-eq", "kind": "benign", "why": "behaviour-preserving: the two-arm match on the mode written as `if mode == CancelOnDisconnect {..} else {..}` (derived PartialEq)",
     "edits": [(_S, "    let mut response = match server.config.default_handler_task_mode {\n        HandlerTaskMode::CancelOnDisconnect => {", "    let mut response = if server.config.default_handler_task_mode == HandlerTaskMode::CancelOnDisconnect {\n        {"),
               (_S, "        HandlerTaskMode::Detached => {\n            // Spawn the handler so", "        } else {\n            // Spawn the handler so"),
               (_S, "                    panic::resume_unwind(task_err.into_panic());\n                }\n            }\n        }\n    };", "                    panic::resume_unwind(task_err.into_panic());\n                }\n            }\n        }\n    ;")]},
    {"name": "mode-named-flag", "kind": "benign", "why": "behaviour-preserving: the mode is copied to a local, turned into a named flag with matches!, and the flag is tested (negated) by an if / else",
     "edits": [(_S, "    let mut response = match server.config.default_handler_task_mode {\n        HandlerTaskMode::CancelOnDisconnect => {", "    let task_mode = server.config.default_handler_task_mode;\n    let run_detached = matches!(task_mode, HandlerTaskMode::Detached);\n    let mut response = if !run_detached {\n        {"),
               (_S, "        HandlerTaskMode::Detached => {\n            // Spawn the handler so", "        } else {\n            // Spawn the handler so"),
               (_S, "                    panic::resume_unwind(task_err.into_panic());\n                }\n            }\n        }\n    };", "                    panic::resume_unwind(task_err.into_panic());\n                }\n            }\n        }\n    ;")]},
    {"name": "received-result-matched", "kind": "benign", "why": "behaviour-preserving: `result?` on the received handler result written as an explicit match with `return Err(e)`; the JoinError handled by match instead of expect_err",
     "edits": [(_S, "                Ok(result) => result?,", "                Ok(result) => match result {\n                    Ok(rsp) => rsp,\n                    Err(handler_error) => return Err(handler_error),\n                },"),
               (_S, "            handler.handle_request(rqctx, request).await?\n", "            match handler.handle_request(rqctx, request).await {\n                Ok(rsp) => rsp,\n                Err(handler_error) => return Err(handler_error),\n            }\n")]},
    {"name": "received-as-option", "kind": "benign", "why": "behaviour-preserving: `match rx.await {Ok.., Err(_)..}` written as `rx.await.ok()` followed by a match on the Option (R3 explores the body under the hypotheses `a result was received` / `the sender was dropped`, whatever carries that fact)",
     "edits": [(_S, "            match rx.await {\n                Ok(result) => result?,\n                Err(_) => {", "            let received = rx.await.ok();\n            match received {\n                Some(result) => result?,\n                None => {")]},
    {"name": "arms-yield-result-one-try-after", "kind": "benign", "why": "behaviour-preserving: both task-mode arms evaluate to the handler's Result and a single `?` follows the match",
     "edits": [(_S, "            handler.handle_request(rqctx, request).await?\n", "            handler.handle_request(rqctx, request).await\n"),
               (_S, "                Ok(result) => result?,", "                Ok(result) => result,"),
               (_S, "        }\n    };\n    response.headers_mut().insert(", "        }\n    }?;\n    response.headers_mut().insert(")]},
    {"name": "received-as-option-handler-error-unwinds", "kind": "mutant", "why": "Option spelling of the receive in which a handler *error* (a result was received) is flattened to None and takes the panic-propagation path",
     "edits": [(_S, "            match rx.await {\n                Ok(result) => result?,\n                Err(_) => {", "            let received = rx.await.ok().and_then(|r| r.ok());\n            match received {\n                Some(rsp) => rsp,\n                None => {")],
     "expect": ["C16.R3"]},
    {"name": "task-body-extracted-to-async-fn", "kind": "benign", "why": "behaviour-preserving: the detached task's body is an `async fn` called in the spawn argument instead of an inline async block",
     "edits": [(_S, "            let handler_task = tokio::spawn(async move {\n                let request_log = rqctx.log.clone();", "            let handler_task = tokio::spawn(run_detached(rqctx, handler, request, tx, worker));\n            #[cfg(any())]\n            let _unused = (async move {\n                let request_log = rqctx.log.clone();"),
               (_S, "async fn http_request_handle<C: ServerContext>(", "async fn run_detached<C: ServerContext>(\n    rqctx: RequestContext<C>,\n    handler: Arc<dyn crate::handler::RouteHandler<C>>,\n    request: Request<crate::Body>,\n    tx: oneshot::Sender<Result<Response<Body>, HandlerError>>,\n    worker: DebugIgnore<waitgroup::Worker>,\n) {\n    let request_log = rqctx.log.clone();\n    let result = handler.handle_request(rqctx, request).await;\n    if let Err(result) = tx.send(result) {\n        match result {\n            Ok(r) => warn!(request_log, \"request completed after handler was already cancelled\"; \"response_code\" => r.status().as_u16()),\n            Err(error) => warn!(request_log, \"request completed after handler was already cancelled\"; \"response_code\" => error.status_code().as_u16()),\n        }\n    }\n    mem::drop(worker);\n}\n\nasync fn http_request_handle<C: ServerContext>(")]},
]

LEVEL_TEXT += ' Also (R4): the hyper connection builder is configured once before the transport switch and HTTP/1 half-close is never enabled, so HTTP and HTTPS detect a disconnect identically.'
LEVEL_TEXT += " Also (R5): the disconnect record (log line, 499 probe) is written only for a future dropped mid-handler: the scope guard is defused on every path from the completed handler await to the response."
LEVEL_TEXT += " Also (R6): the task mode read by the dispatch is the configured one: it is copied from the constructor's config, which every internal caller passes through unmodified. The serialising conversion of the configuration (serde `into`) carries the mode as well. Also (R7): the failure edge of the detached task's tx.send(result) passes a log record on every path; (R6) the mode of a configuration that names none is Detached. Also (R6): the configuration parser refuses a mode name it does not know; (R8 = the SO_LINGER census of C17.R5): no served connection is configured for an abortive close."


SELFTEST += [
    {"name": "config-serialising-conversion-destructures", "kind": "benign", "why": "behaviour-preserving: From<ConfigDropshot> for DeserializedConfigDropshot destructures its argument first",
     "edits": [("dropshot/src/config.rs", "        DeserializedConfigDropshot {\n            bind_address: v.bind_address,\n            default_request_body_max_bytes: v.default_request_body_max_bytes,\n            request_body_max_bytes: None,\n            default_handler_task_mode: v.default_handler_task_mode,\n            log_headers: v.log_headers,\n        }",
                "        let ConfigDropshot { bind_address, default_request_body_max_bytes, default_handler_task_mode, log_headers } = v;\n        DeserializedConfigDropshot {\n            bind_address,\n            default_request_body_max_bytes,\n            request_body_max_bytes: None,\n            default_handler_task_mode,\n            log_headers,\n        }")]},
]
