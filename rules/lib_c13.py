"""Helpers of C13 (and of the C18 panic census): what a potential panic site *tests*, and the decision of the
status-refinement rule by interpretation."""
import itertools
import re

from . import absint
from .lib import operand_local

ESC = "error_status_code::ErrorStatusCode"
CESC = "error_status_code::ClientErrorStatusCode"

# --------------------------------------------------------------------------- what a panic site tests
# `opt.expect("..")`, `opt.unwrap()`, `let Some(x) = opt else { panic!("..") }` and `match opt { Some(x) => .., None =>
# unreachable!(..) }` are one panic under one condition: the Option is None.  A reviewed-table line is about that
# condition ("headers_mut() of a fresh builder is never None"), not about the spelling, so the censuses key such a
# site by (enum, panicking variant, origin of the tested value).
_VARIANTS = {"std::option::Option": {0: "None", 1: "Some"}, "std::result::Result": {0: "Ok", 1: "Err"}}
_UNWRAP_FAMILY = [
    (re.compile(r"(^|::)option::Option::<T>::(unwrap|expect|unwrap_unchecked)$"), ("Option", "None")),
    (re.compile(r"(^|::)result::Result::<T, E>::(unwrap|expect|unwrap_unchecked)$"), ("Result", "Err")),
    (re.compile(r"(^|::)result::Result::<T, E>::(unwrap_err|expect_err)$"), ("Result", "Ok")),
]
_EXPLICIT_PANIC = re.compile(r"^core::panicking::|^std::rt::(begin_panic|panic)|^std::panicking::")
# calls whose result is (a view of) the same Option / Result as their first argument
_POLL = re.compile(r"(^|::)Future::poll$")
_SAME_VALUE = re.compile(r"(Option::<T>|Result::<T, E>)::(as_ref|as_mut|as_deref|as_deref_mut|copied|cloned|take)$|clone::Clone::clone$|"
                         r"ops::Deref::deref$|ops::DerefMut::deref_mut$|hint::must_use$|pin::Pin::<Ptr>::(as_mut|as_ref|get_mut|new|new_unchecked)$|"
                         r"future::IntoFuture::into_future$")


def _strip_ty(ty):
    return re.sub(r"/#\d+", "", re.sub(r"^(&('\{erased\} |'[a-z_]+ )?(mut )?)+", "", ty or ""))


def _field_names(fn, pl):
    """Field path of a place; the payload position after a variant downcast (`(x as Ready).0`) is not a field."""
    out = []
    after_downcast = False
    for e in pl["p"]:
        if isinstance(e, dict) and "dc" in e:
            after_downcast = True
            continue
        if isinstance(e, dict) and "f" in e and not after_downcast:
            out.append(str(e.get("n") if e.get("n") is not None else e["f"]))
        after_downcast = False
    return out


def value_origin(fn, place, depth=0, _seen=None):
    """Where the value held by `place` comes from, as a stable text: the producing call's callee, a field path of a
    parameter (`param<Type>.field`), a constant, an aggregate.  Moves, copies, borrows, casts and calls that return a
    view of the same Option/Result (as_ref, as_mut, take, clone ..) are looked through.  None when there is no single
    origin (several different definitions, a closure capture, an index projection)."""
    _seen = _seen if _seen is not None else set()
    l = place["l"]
    if any(isinstance(e, dict) and "idx" in e for e in place["p"]) or depth > 12:
        return None
    suffix = "".join("." + f for f in _field_names(fn, place))
    if l in _seen:
        return None
    _seen.add(l)
    whole = []
    for bb, kind, node in fn.defs().get(l, []):
        w = node["pl"] if kind == "assign" else (node.get("dest") if kind == "call" else None)
        if w is not None and not w["p"]:
            whole.append((bb, kind, node))
    if 1 <= l <= fn.raw.get("argc", 0) and not whole:
        if fn.raw.get("kind") == "Closure" and l == 1:
            return None     # a capture: the value lives in the parent
        return "param<%s>%s" % (_strip_ty(fn.local_ty(l)), suffix)
    if not whole:
        return None
    outs = set()
    for bb, kind, node in whole:
        o = None
        if kind == "call":
            c = node.get("callee") or ""
            if _SAME_VALUE.search(c) and node["args"] and node["args"][0].get("k") in ("copy", "move"):
                o = value_origin(fn, node["args"][0]["pl"], depth + 1, set(_seen))
            elif _POLL.search(c) and node["args"] and node["args"][0].get("k") in ("copy", "move"):
                # `fut.await`: the value is the output of the awaited future, named by its type (the impl the poll resolves
                # to) so that it does not matter where the future was created; else by where the future comes from
                m = re.match(r"^<(.+) as [\w:]*Future>::poll$", node.get("resolved") or "")
                o = "await " + (m.group(1) if m else (value_origin(fn, node["args"][0]["pl"], depth + 1, set(_seen)) or node.get("resolved") or c))
            elif c:
                o = c
        elif kind == "assign":
            rv = node["rv"]
            if rv["rv"] in ("use", "cast"):
                op = rv["op"]
                if op.get("k") in ("copy", "move"):
                    o = value_origin(fn, op["pl"], depth + 1, set(_seen))
                elif op.get("k") == "const":
                    o = "const %s" % (op.get("path") or op.get("ty"))
            elif rv["rv"] in ("ref", "copyderef"):
                o = value_origin(fn, rv["pl"], depth + 1, set(_seen))
            elif rv["rv"] == "agg" and rv.get("agg") == "adt":
                o = "aggregate %s::%s" % (rv["adt"], rv.get("variant"))
        if o is None:
            return None
        outs.add(o)
    return (outs.pop() + suffix) if len(outs) == 1 else None


def _variant_edges(fn):
    """[(switch_bb, target_bb, adt, variant name, scrutinee place)] for the discriminant switches on an Option / Result
    whose variants go to different blocks."""
    cached = getattr(fn, "_c13_variant_edges", None)
    if cached is not None:
        return cached
    out = []
    for sbb, st in fn.switches():
        info = fn.switch_on(sbb)
        if info.get("kind") != "discr" or info.get("adt") not in _VARIANTS:
            continue
        names = _VARIANTS[info["adt"]]
        tg = {idx: fn.switch_target(sbb, idx) for idx in names}
        if len(set(tg.values())) != len(tg) or not set(tg.values()) <= set(fn.succ(sbb)):
            continue      # not a test: both variants continue alike, or the scrutinee's variant is statically known (edge pruned)
        for idx, name in names.items():
            out.append((sbb, tg[idx], info["adt"].split("::")[-1], name, info["place"]))
    fn._c13_variant_edges = out
    return out


def tested_variant(fn, bb):
    """For a potential panic site (a call block): (enum, panicking variant, origin text) when the site is an
    unwrap-like test of an Option / Result value, whatever its spelling:
      * a call of the unwrap / expect family: the receiver;
      * an explicit panic (`panic!`, `unreachable!`, `unimplemented!` ..) that every path reaches through the V edge of
        a discriminant switch on an Option / Result, where taking that edge never completes normally (`V => panic!(..)`,
        `let .. else { panic!(..) }`): the innermost such switch's scrutinee.
    None for every other site (keyed by its callee as before)."""
    t = fn.blocks[bb]["term"]
    if t["t"] != "call":
        return None
    c = t.get("callee") or ""
    for rx, (adt, variant) in _UNWRAP_FAMILY:
        if rx.search(c):
            a = t["args"][0] if t["args"] else None
            if a is None or a.get("k") not in ("copy", "move"):
                return None
            o = value_origin(fn, a["pl"])
            return (adt, variant, o) if o else None
    if not _EXPLICIT_PANIC.search(c):
        return None
    rets = set(fn.returns())
    cands = []
    for sbb, tgt, adt, name, place in _variant_edges(fn):
        if not fn.edge_dominates(sbb, tgt, bb):
            continue
        if rets & fn.reachable(tgt):
            continue          # that arm can complete: the panic has a further condition of its own
        cands.append((sbb, tgt, adt, name, place))
    if not cands:
        return None
    # innermost: the switch that all the other candidates dominate
    cands.sort(key=lambda cnd: sum(1 for o in cands if fn.dominates(o[0], cnd[0])))
    sbb, tgt, adt, name, place = cands[-1]
    o = value_origin(fn, place)
    return (adt, name, o) if o and not o.startswith(("aggregate ", "const ")) else None


def site_what(fn, bb, default):
    """Census spelling of a site: `Option::None <- <origin>` for an unwrap-like test, else `default`."""
    tv = tested_variant(fn, bb)
    if tv is None:
        return default
    return "%s::%s <- %s" % tv


# --------------------------------------------------------------------------- which struct a field projection reads
def _unref(ty):
    """One level of indirection off a type string (`&T`, `&mut T`, `Box<T, A>`)."""
    m = re.match(r"^&('[^ ]+ )?(mut )?(.*)$", ty)
    if m:
        return m.group(3)
    m = re.match(r"^std::boxed::Box<(.*), std::alloc::Global>$", ty)
    if m:
        return m.group(1)
    return None


def field_owner_adts(facts, fn, place, field_name):
    """ADT ids owning the projection elements named `field_name` in `place`, found by walking the place's type from
    the local's declared type through derefs, downcasts and fields of ADTs of the fact base.  An element whose owner
    cannot be determined (a generic field type, a closure capture, an index) is reported as None -- callers treat that
    as "could be any struct" (fail closed)."""
    out = []
    ty = fn.local_ty(place["l"])
    variant = None
    for e in place["p"]:
        if e == "*":
            ty = _unref(ty) if ty is not None else None
            continue
        if not isinstance(e, dict):
            ty = None
            continue
        if "dc" in e:
            variant = e["dc"]
            continue
        if "f" in e:
            adt = facts.adt_of_type(ty) if ty is not None else None
            rec = facts.adts.get(adt) if adt else None
            if e.get("n") == field_name:
                out.append(adt if rec is not None else None)
            nxt = None
            if rec is not None:
                for v in rec["variants"]:
                    if (variant is None and len(rec["variants"]) == 1) or v["name"] == variant:
                        if e["f"] < len(v["fields"]) and str(v["fields"][e["f"]]["name"]) == str(e.get("n")):
                            nxt = v["fields"][e["f"]]["ty"]
            ty = nxt
            variant = None
            continue
        ty = None
    return out


# --------------------------------------------------------------------------- refinement types by interpretation
_GUARD = {ESC: lambda c, s: c or s, CESC: lambda c, s: c}
_BOOL_SUMMARIES = {"core::bool::<impl bool>::then_some": absint.GENERIC_SUMMARIES["std::bool::<impl bool>::then_some"],
                   "core::bool::<impl bool>::then": absint.GENERIC_SUMMARIES["std::bool::<impl bool>::then"]}


def _wrappers_in(v, out, depth=0):
    if v is None or depth > 12:
        return
    k = v[0]
    if k == "ref":
        _wrappers_in(absint.read_path(v[1], v[2]), out, depth + 1)
    elif k == "struct":
        if v[1] in (ESC, CESC):
            out.append(v)
        for x in v[2]:
            _wrappers_in(x, out, depth + 1)
    elif k == "enum":
        for x in v[4]:
            _wrappers_in(x, out, depth + 1)
    elif k == "tuple":
        for x in v[1]:
            _wrappers_in(x, out, depth + 1)
    elif k == "closure":
        for x in v[2]:
            _wrappers_in(x, out, depth + 1)


class TableInterp(absint.Interp):
    """absint interpreter that also executes lookups in constant tables: a constant array (rendered by the driver as
    `{"list": [..]}` with tuples, field-less enum values and fn pointers as elements) is a concrete array value that
    slice::iter / find / find_map / position walk (lib_c07.ITER_SUMMARIES), and a call through a fn pointer taken from
    such a table is the call of the function it names (so a summary / crate-local body applies to it)."""

    def __init__(self, facts, order, summaries=None, **kw):
        from .lib_c07 import ITER_SUMMARIES
        sm = dict(ITER_SUMMARIES)
        sm.update(summaries or {})
        absint.Interp.__init__(self, facts, order, summaries=sm, **kw)

    def const_value(self, val, what):
        if not isinstance(val, dict):
            raise absint.LeavesFragment("constant %s has an element the driver does not render" % what)
        if "list" in val:
            return ("tuple", [self.const_value(x, what) for x in val["list"]], "array")
        if "tuple" in val:
            return absint.V_tuple([self.const_value(x, what) for x in val["tuple"]])
        if "fn" in val:
            return ("zst", val["fn"])
        if "variant" in val and "adt" in val:
            return absint.V_enum(val["adt"], self.vidx(val["adt"], val["variant"]), val["variant"], [])
        if "int" in val:
            return absint.V_int(val["int"])
        if "str" in val:
            return absint.V_opaque("str:" + val["str"])
        raise absint.LeavesFragment("constant %s has an element the driver does not render" % what)

    def operand(self, frame, op):
        if op.get("k") == "const" and not op.get("fn") and isinstance(op.get("val"), dict) and "list" in op["val"]:
            return self.const_value(op["val"], op.get("path") or op.get("ty"))
        return absint.Interp.operand(self, frame, op)

    def concrete(self, v, depth=0):
        """Structural form of a value made only of enum variants, tuples, structs, ints and bools; None otherwise."""
        v = self.deref_all(v)
        if v is None or depth > 8:
            return None
        if v[0] in ("int", "bool"):
            return (v[0], int(v[1]))
        if v[0] == "enum":
            xs = [self.concrete(x, depth + 1) for x in v[4]]
            return None if None in xs else ("enum", v[1], v[2], tuple(xs))
        if v[0] in ("tuple", "struct"):
            xs = [self.concrete(x, depth + 1) for x in (v[1] if v[0] == "tuple" else v[2])]
            return None if None in xs else (v[0], tuple(xs))
        return None

    def do_call(self, fn, frame, t, bb):
        m = absint.CMP_RX.match(t.get("callee") or "")
        if m and m.group(1) in ("eq", "ne") and len(t["args"]) == 2:
            # derived (in)equality of two fully concrete values (`class_of(status) == Some(ErrorClass::Client)`)
            a, b = [self.concrete(self.operand(frame, x)) for x in t["args"]]
            if a is not None and b is not None and a[0] == b[0] == "enum" and a[1] == b[1]:
                return absint.V_bool((a == b) == (m.group(1) == "eq"))
        if t.get("callee") is None and t.get("callee_op") is not None:
            target = self.deref_all(self.operand(frame, t["callee_op"]))
            if target is None or target[0] != "zst" or not target[1]:
                raise absint.LeavesFragment("call through a function pointer that is not a known function at %s bb%d" % (fn.id, bb))
            t = dict(t, callee=target[1])
            t.pop("resolved", None)
        return absint.Interp.do_call(self, fn, frame, t, bb)


def refinement_by_interpretation(facts, f):
    """Decide "every ErrorStatusCode / ClientErrorStatusCode value this function produces wraps a status for which
    is_client_error() || is_server_error() / is_client_error() holds" by running the function (abstract interpreter,
    crate-local callees included) once per truth assignment of the two http::StatusCode predicates on each opaque
    status it receives.  Parameters of a refinement type are assumed to satisfy their own invariant (induction over the
    constructors, all of which are instances of the rule).  Any operation outside the fragment (another predicate,
    arithmetic on the status, an unknown callee) leaves it undecided.  Shape-independent: `if a || b`, a tuple match,
    `cond.then_some(Self(status)).ok_or(..)` (the wrapper is built eagerly but only observable when cond holds),
    delegation to another constructor function, and a class looked up in a constant table of (predicate fn pointer,
    class) pairs (TableInterp) are all just executions.
    Returns (ok, detail)."""
    argc = f.raw.get("argc", 0)
    tags = []
    shapes = []
    for i in range(1, argc + 1):
        ty = f.local_ty(i)
        inner = _strip_ty(ty)
        tag = "status#%d" % i
        if inner == "http::StatusCode":
            shapes.append((ty.startswith("&"), None, tag))
        elif inner in (ESC, CESC):
            shapes.append((ty.startswith("&"), inner, tag))
        else:
            return False, "parameter %d has type %s, which the interpretation does not model" % (i, ty)
        tags.append(tag)
    runs = 0
    for combo in itertools.product([(False, False), (True, False), (False, True), (True, True)], repeat=len(tags)):
        env = dict(zip(tags, combo))
        if any(adt is not None and not _GUARD[adt](*env[tag]) for _, adt, tag in shapes):
            continue     # not a value of the parameter's refinement type

        def pred(which):
            def s(interp, argv, t):
                v = interp.deref_all(argv[0])
                if v is None or v[0] != "opaque" or v[1] not in env:
                    raise absint.LeavesFragment("status predicate on a value that is not a received status")
                return absint.V_bool(env[v[1]][which])
            return s
        summaries = dict(_BOOL_SUMMARIES)
        summaries["http::StatusCode::is_client_error"] = pred(0)
        summaries["http::StatusCode::is_server_error"] = pred(1)
        def run(choices):
            args = []
            for isref, adt, tag in shapes:
                v = absint.V_opaque(tag)
                if adt is not None:
                    v = absint.V_struct(adt, [v])
                args.append(absint.V_ref(absint.Cell(v)) if isref else v)
            it = TableInterp(facts, {}, summaries=summaries, choices=choices, max_steps=4000)
            res = it.call_fn(f, list(args))
            # what the caller can observe afterwards: the result and whatever was written through a reference parameter
            return it, absint.V_tuple([res] + args)
        try:
            outs = absint.explore(run, limit=64)
        except absint.LeavesFragment as e:
            return False, "not decidable by interpretation: %s" % e
        runs += len(outs)
        for res in outs:
            ws = []
            _wrappers_in(res, ws)
            for w in ws:
                inner = w[2][0] if w[2] else None
                while inner is not None and inner[0] == "ref":
                    inner = absint.read_path(inner[1], inner[2])
                if inner is None or inner[0] != "opaque" or inner[1] not in env:
                    return False, "returns a %s wrapping %s, not a status it tested" % (w[1].split("::")[-1], absint.show(inner))
                c, s = env[inner[1]]
                if not _GUARD[w[1]](c, s):
                    return False, "with is_client_error()=%s, is_server_error()=%s on the status the function returns %s" % (c, s, absint.show(res[1][0]))
    return True, "interpreted over every truth assignment of is_client_error()/is_server_error() (%d runs): a wrapper is returned only when its guard holds" % runs
