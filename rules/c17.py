"""C17 — shutdown is graceful and complete."""
import re

from .lib import callers, closure_of_operand, result_split
from .lib_c17 import Env, future_term, leaves, outcomes, show
from .lib_c16 import (SERVE, SPAWN, accept_arms, after_await, await_payloads, awaits, coroutine_of_operand, exits_only_on_close_signal, field_places, give_up_sites, loop_exits, return_defs,
                      server_task, slice_has_call_at)

LEVEL = "other"
TECHNIQUE = "static analysis: dominance / must-pass on the MIR of HttpServer::close, the server task and the join future in HttpServerStarter::start (async block, or symbolic evaluation of a futures-combinator chain); sibling agreement of the HTTP and HTTPS accept arms; who-reads and ownership censuses"
LEVEL_TEXT = ("Decides on all paths of the MIR (current tree): close() sends the close signal, then gives up its Arc of the server state, then awaits the join future, and returns only its "
              "result; in the server task every connection future of both accept arms is registered with the one GracefulShutdown watcher before it is spawned, both accept loops are left "
              "only through the select! branch that polled the close receiver (the `break` stands in that branch's handler, or the select! only classifies the event and the exit further down is taken only by executions in which it resolved to that branch), and every path to the task's end awaits graceful.shutdown(); the join future awaits the server task and "
              "WaitGroup::wait() on the wait group whose worker lives in the server state (with C16.R1: and in every detached handler task) before yielding Ok, and yields the server task's "
              "own error as Err -- decided for either spelling of that future: an async block / async fn (dominance over its await edges) or a chain of futures-crate combinators "
              "(map_err / map_ok / and_then / map / inspect / boxed.., evaluated symbolically to the set of ways the chain can resolve; any other combinator fails closed); join_future is a "
              "futures::Shared that is only cloned, polled or queried; the TcpListener is owned by the HttpAcceptor that is moved into the server task and nothing in the crate can leak it.  "
              "Not decided: that hyper's graceful shutdown lets in-flight responses finish, tokio's task/drop order (third-party, schedules).")
LEVEL_NOTE = "Trusts rustc MIR, the extractor, hyper_util GracefulShutdown (watch registers, shutdown resolves when all watched connections finished), futures::Shared, waitgroup, tokio task drop order."
EXPLANATION = ("Rules over the MIR of server::HttpServer::close, HttpServerStarter::start (its spawned server-task coroutine and its join coroutine), new_internal, wait_for_shutdown, "
               "Future for HttpServer and CloseHandle::drop from the current tree: ORDER (send -> drop(app_state) -> join await), PASS + SIBLINGS-AGREE (serve_connection -> watch -> spawn on "
               "both arms; loop exits only under the select! output variant fed by the oneshot receiver; graceful.shutdown() awaited on every path), ORDER in the join future (server task "
               "-> WaitGroup::wait -> Ok; for a combinator chain: lib_c17.outcomes over the term of the chain, closures read from their MIR), SAME-SOURCE (one WaitGroup::new feeds the starter and the worker in the server state), SHAPE + WHO-READS (join_future), ownership census "
               "(HttpAcceptor / TcpListener, leak APIs).")
TRUSTED = ["rustc nightly MIR", "mirfacts extractor", "rules/engine.py + rules/lib_c16.py + rules/lib_c17.py (documented semantics of futures::TryFutureExt::{map_err, map_ok, and_then} and FutureExt::map)", "hyper_util::server::graceful", "futures::future::Shared", "waitgroup crate", "tokio task semantics"]

WATCH = r"graceful::GracefulShutdown::watch$"
SHUTDOWN = r"graceful::GracefulShutdown::shutdown$"
GNEW = r"graceful::GracefulShutdown::new$"
LEAK_REVIEWED = {
    ("logging::log_drain_for_file", "std::boxed::Box::<T, A>::leak"): "leaks the logger-name String to obtain a &'static str for slog_bunyan; no socket or task handle involved",
}
LEAK = r"mem::forget$|Box::<T(, A)?>::leak$|into_raw_fd$|into_raw_socket$|ManuallyDrop::<T>::new$|TcpListener::into_std$|mem::transmute$"


def _field_op(facts, st, name):
    """Operand initialising field `name` in an ADT aggregate statement."""
    fs = facts.adt_fields(st["rv"]["adt"], st["rv"].get("variant"))
    if not fs:
        return None
    for i, f in enumerate(fs):
        if f["name"] == name and i < len(st["rv"]["ops"]):
            return st["rv"]["ops"][i]
    return None


def _start(ctx, R):
    r = server_task(ctx.ds)
    if isinstance(r, str):
        ctx.lost(R, r)
        return None
    return r


_BOXED = r"FutureExt::boxed$|boxed::Box::<T>::pin$"
_COMBINATOR_TERMS = ("map_err", "map_ok", "and_then", "map", "try_join")


def _join_future(ctx, R, st):
    """The future that is boxed into HttpServer.join_future, in one of the two enumerated idioms:
    ("async", (coroutine Fn, its aggregate), slice, site) -- an async block, or the future of a crate-local async fn;
    ("combinators", (Env, term), slice, site) -- a chain of futures::{TryFutureExt, FutureExt} combinators (lib_c17.future_term)."""
    aggs = list(st.aggregates(r"^server::HttpServer$"))
    if len(aggs) != 1:
        ctx.lost(R, "the HttpServer aggregate in start() (%d found)" % len(aggs))
        return None
    bb, i, agg = aggs[0]
    op = _field_op(ctx.ds, agg, "join_future")
    if op is None:
        ctx.lost(R, "field join_future of HttpServer")
        return None
    sl = st.slice(op)
    cands = []
    for c, cb, ct in sl.calls(_BOXED):
        g, node = coroutine_of_operand(st, ct["args"][0])     # an async block, or the future of a crate-local async fn
        if g is not None and g.raw.get("coroutine"):
            cands.append((cb, ct, "async", (g, node)))
            continue
        env = Env()
        term = future_term(env, st, ct["args"][0])
        if term["k"] in _COMBINATOR_TERMS:
            cands.append((cb, ct, "combinators", (env, term)))
    # a future may be boxed more than once on its way (`a.boxed().and_then(..).boxed()`): the outermost boxing is the join future
    outer = [x for x in cands if not any(y is not x and slice_has_call_at(st.slice(y[1]["args"][0]), x[0]) for y in cands)]
    if len(outer) != 1:
        ctx.lost(R, "the async block / async fn future / futures-combinator chain that is boxed into join_future (%d found)" % len(outer))
        return None
    return outer[0][2], outer[0][3], sl, (st, bb)


def _upvar_ops(parent, node, child, place_slice):
    """Operands of the parent's closure aggregate that the child's slice reads (via _1.<i>)."""
    idx = set()
    for p, proj in place_slice.param_fields():
        if p == 1:
            for e in proj:
                if e.startswith("f"):
                    idx.add(int(e[1:].split(":")[0]))
                    break
    return [node["rv"]["ops"][i] for i in sorted(idx) if i < len(node["rv"]["ops"])]


def r1_close_order(ctx):
    R = ctx.rule("C17.R1", "close(): the close signal is sent, then the caller's Arc of the server state is given up, then join_future is awaited — each dominating the next — "
                 "and close() returns only the join result", floor=6)
    top = ctx.need_fn(ctx.ds, R, r"^server::HttpServer::<C>::close$")
    cl = ctx.ds.body_of(top)
    # Added after adversary change C17-M (TestContext::teardown, the crate's own caller of close() and what users end their servers with,
    # wrapped the call in a 10 s tokio::time::timeout and went on as if shutdown had completed): every caller of close() in the crate
    # awaits it to its end -- no timer or select races it
    for f2, b2, t2 in callers(ctx.ds, r"^server::HttpServer::<C>::close$"):
        body = ctx.ds.body_of(f2) if hasattr(ctx.ds, "body_of") else f2
        racing = sorted(set(t3["callee"] for g in [body] + ctx.ds.descendants(body) for _, t3 in g.live_calls(r"^tokio::time::(timeout|timeout_at|sleep|sleep_until|interval)$|^tokio::select|future::select$|FutureExt::now_or_never$")))
        ctx.check(R, "caller-awaits-close-to-its-end:%s" % f2.id, not racing, "%s calls close() and %s" % (f2.id, ("also " + ", ".join(racing) + ": the shutdown can be abandoned before it finished") if racing else "uses no timer or select"), (f2, b2))
    sends = [(bb, t) for bb, t in cl.live_calls(r"oneshot::Sender::<T>::send$") if cl.slice(t["args"][0]).reads_field("close_channel")]
    ctx.check(R, "one-close-signal", len(sends) == 1, "sends on closer.close_channel in close(): %d" % len(sends), cl)
    jaw = [a for a in awaits(cl, fut_type_rx=r"future::Shared") if cl.slice(a["term"]["args"][0]).reads_field("join_future")]
    if not jaw or any(a["ready"] is None for a in jaw):
        ctx.lost(R, "the await of self.join_future in close()")
        return
    holders = field_places(cl, "app_state")
    sites = [x for l, fi in holders for x in give_up_sites(cl, l, fi)]
    sbb = sends[0][0] if len(sends) == 1 else None
    for n, aw in enumerate(sorted(jaw, key=lambda a: a["poll_bb"])):
        tag = "" if len(jaw) == 1 else "#%d" % n
        ok = sbb is not None and cl.dominates(sbb, aw["poll_bb"])
        ctx.check(R, "signal-before-join" + tag, ok, "the close signal is sent on every path before join_future is first polled: %s" % ok, (cl, aw["poll_bb"]))
        before = [(bb, how) for bb, how in sites if cl.dominates(bb, aw["poll_bb"])]
        ctx.check(R, "state-released-before-join" + tag, bool(before),
                  "self.app_state is given up at %s; sites that dominate the join await: %d (join_future waits for every clone of the waitgroup worker in that state)" % ([h for _, h in sites], len(before)),
                  (cl, aw["poll_bb"]))
    rel = [(bb, how) for bb, how in sites if any(cl.dominates(bb, aw["poll_bb"]) for aw in jaw)]
    ordered = [(bb, how) for bb, how in rel if sbb is not None and cl.dominates(sbb, bb)]
    ctx.check(R, "signal-before-state-release", bool(rel) and len(ordered) == len(rel), "release sites dominated by the send: %d of %d" % (len(ordered), len(rel)), cl)
    rets = cl.returns()
    ok = bool(rets) and all(any(after_await(cl, aw, r) for aw in jaw) for r in rets)
    ctx.check(R, "returns-only-after-join", ok, "every return of close() follows the Ready edge of a join await: %s" % ok, cl)
    # close()'s value is the join result: either the awaited value itself, or an Ok / Err rebuilt on the matching side of a
    # test of that value (`match self.join_future.await { Ok(()) => Ok(()), Err(e) => Err(e) }`)
    r0 = cl.slice({"l": 0, "p": []})
    splits = [sp for aw in jaw for l in await_payloads(cl, aw) for sp in [result_split(cl, l)] if sp is not None]
    rebuilt = [(b, tag) for b, tag in return_defs(cl) if tag not in ("value", "residual")]
    stray = sorted(set(tag for b, tag in rebuilt if not any(cl.edge_dominates(sp["switch_bb"], sp["ok" if tag == "Ok" else "err"], b) and sp["ok"] != sp["err"] for sp in splits if tag in ("Ok", "Err"))))
    ok = any(r0.touches_local(aw["dest"]) for aw in jaw) and not stray
    ctx.check(R, "returns-the-join-result", ok, "close()'s value is the payload of the join await (results rebuilt on the matching side of a test of it: %d; elsewhere: %s): %s" % (len(rebuilt) - len(stray), stray, ok), cl)
    # Drop for CloseHandle still signals (less clean shutdowns)
    dr = ctx.ds.one(r"^<server::CloseHandle as std::ops::Drop>::drop$")
    if dr is None:
        ctx.lost(R, "Drop for CloseHandle")
    else:
        s2 = [(bb, t) for bb, t in dr.live_calls(r"oneshot::Sender::<T>::send$") if dr.slice(t["args"][0]).reads_field("close_channel")]
        nopanic = not dr.live_calls(r"Result::<T, E>::(unwrap|expect)$")
        ctx.check(R, "drop-signals-without-panicking", len(s2) == 1 and nopanic, "CloseHandle::drop sends on close_channel: %d site(s); unwrap/expect on the send result: %s" % (len(s2), not nopanic), dr)


def _arms(ctx, R, co):
    arms, problems = accept_arms(co)
    for p in problems:
        ctx.lost(R, p)
    return arms


def r2_server_task(ctx):
    R = ctx.rule("C17.R2", "server task: on both accept arms every connection future goes serve_connection -> graceful.watch -> tokio::spawn (one watcher, the one that is shut down); "
                 "both accept loops are left only through the select! branch fed by the close receiver; every path to the end of the task awaits graceful.shutdown()", floor=15)
    s = _start(ctx, R)
    if s is None:
        return
    st, (spbb, spt), co, node = s
    arms = _arms(ctx, R, co)
    ctx.check(R, "two-accept-arms", sorted(arms) == ["http", "https"], "accept arms found in the server task: %s" % sorted(arms), co)
    sh = co.live_calls(SHUTDOWN)
    ctx.check(R, "one-graceful-shutdown", len(sh) == 1, "GracefulShutdown::shutdown call sites: %d" % len(sh), co)
    if len(sh) != 1:
        return
    shbb, sht = sh[0]
    news = co.slice(sht["args"][0]).calls(GNEW)
    if len(news) != 1:
        ctx.lost(R, "the GracefulShutdown::new() that is shut down")
        return
    gbb = news[0][1]
    serve_all = co.live_calls(SERVE)
    in_arm = set(b for a in arms.values() for b, _ in a["serve"])
    ctx.check(R, "serve-sites-all-in-accept-loops", len(serve_all) >= 2 and all(b in in_arm for b, _ in serve_all),
              "serve_connection sites: %d, inside an accept loop: %d" % (len(serve_all), len([1 for b, _ in serve_all if b in in_arm])), co)
    watches = co.live_calls(WATCH)
    spawns = co.live_calls(SPAWN)
    for name in sorted(arms):
        a = arms[name]
        ctx.check(R, "%s-arm-serves" % name, len(a["serve"]) == 1, "serve_connection sites in the %s accept loop: %d" % (name, len(a["serve"])), (co, a["accept_bb"]))
        for vbb, vt in a["serve"]:
            w = [(b, t) for b, t in watches if slice_has_call_at(co.slice(t["args"][1]), vbb)]
            sp = [(b, t) for b, t in spawns if w and slice_has_call_at(co.slice(t["args"][0]), w[0][0])]
            raw = [(b, t) for b, t in spawns if slice_has_call_at(co.slice(t["args"][0]), vbb)]
            same_g = bool(w) and all(slice_has_call_at(co.slice(t["args"][0]), gbb) for b, t in w)
            ok = len(w) == 1 and len(sp) == 1 and len(raw) == 1 and same_g and co.dominates(vbb, w[0][0]) and co.dominates(w[0][0], sp[0][0])
            ctx.check(R, "%s-arm-watch-before-spawn" % name, ok,
                      "connection future: watch sites=%d, spawned via the watched future=%d, spawn sites receiving it at all=%d, watcher is the one shut down=%s" % (len(w), len(sp), len(raw), same_g), (co, vbb))
        ok_exit, n_ex, detail = exits_only_on_close_signal(ctx.ds, co, a["loop"])
        ctx.check(R, "%s-loop-exits-only-on-close-signal" % name, ok_exit, "%d exit edge(s): %s" % (n_ex, "; ".join(detail)), (co, a["accept_bb"]))
    # Added after adversary change C17-J (`biased;` put in front of both accept-loop select!s with the accept branch first: while connections
    # keep arriving the close branch is never polled, so a requested shutdown is ignored under load): the select! that polls the close
    # receiver starts at a random branch (tokio's default), or, if it is biased, polls the close receiver first
    sel = [g for g in ctx.ds.descendants(co) if "macros/select.rs" in (g.raw.get("span") or "")]
    n_close = 0
    for g in sel:
        polls = [(b, t, g.local_ty(t["args"][0]["pl"]["l"]) if t["args"] and t["args"][0].get("pl") else "") for b, t in g.live_calls(r"Future::poll$")]
        closep = [b for b, t, ty in polls if "oneshot::Receiver" in (ty or "") or "oneshot::Receiver" in (t.get("resolved") or "")]
        if not closep:
            continue
        n_close += 1
        fair = bool(g.live_calls(r"^tokio::macros::support::thread_rng_n$"))
        first = False
        if not fair:
            heads = [b for b, t in g.live_calls(r"iter::Iterator::next$")]
            for sbb, t in g.switches():
                d = t["discr"]
                if d.get("k") in ("copy", "move") and not d["pl"]["p"] and g.local_ty(d["pl"]["l"]) == "u32" and len(t["targets"]) >= 2:
                    t0 = [tg for v, tg in t["targets"] if v == 0]
                    if t0:
                        r0 = g.reachable(t0[0], avoid=heads + [sbb])
                        first = all(b in r0 for b in closep) and not any(b in r0 for b, _, _ in polls if b not in closep)
        ctx.check(R, "close-signal-is-not-starved:%s" % g.id.rsplit("::", 1)[-1], fair or first,
                  "the select! polling the close receiver %s" % ("starts at a random branch" if fair else "is biased and polls the close receiver first" if first else
                                                                  "is biased with another branch first: while that branch stays ready the shutdown request is never seen"), g)
    ctx.check(R, "selects-polling-the-close-receiver", n_close >= 2, "select! poll closures of the server task that poll the close receiver: %d (one per accept loop)" % n_close, co, nontrivial=False)
    # every spawn in the task spawns a watched connection
    unw = [b for b, t in spawns if not co.slice(t["args"][0]).has_call(WATCH)]
    ctx.check(R, "every-spawn-is-watched", not unw and len(spawns) >= 2, "spawn sites in the server task: %d, not fed by graceful.watch: %d" % (len(spawns), len(unw)), co)
    # the close receiver polled by the select is the pair of the sender stored in CloseHandle
    ch = st.live_calls(r"oneshot::channel$")
    closer = [s2 for b, i, s2 in st.aggregates(r"^server::CloseHandle$")]
    rx_ops = [o for o in node["rv"]["ops"] if o.get("k") in ("move", "copy") and len(ch) == 1 and slice_has_call_at(st.slice(o), ch[0][0])]
    tx_ok = len(closer) == 1 and len(ch) == 1 and slice_has_call_at(st.slice(closer[0]["rv"]["ops"][0]), ch[0][0])
    ctx.check(R, "close-channel-pairs", tx_ok and len(rx_ops) == 1, "CloseHandle's sender and the receiver captured by the server task come from one oneshot::channel(): %s" % (tx_ok and len(rx_ops) == 1), st)
    # shutdown awaited on every path
    ok = co.must_pass([shbb])
    ctx.check(R, "shutdown-on-every-path", ok, "every path from the task's entry to its return passes graceful.shutdown(): %s" % ok, (co, shbb))
    aws = awaits(co, fut_call_bb=shbb)
    rets = co.returns()
    ok = len(aws) == 1 and bool(rets) and all(after_await(co, aws[0], r) for r in rets)
    ctx.check(R, "shutdown-awaited-before-return", ok, "the shutdown future is awaited and every return follows its Ready edge: %s" % ok, (co, shbb))
    for name in sorted(arms):
        a = arms[name]
        ok = shbb not in a["loop"] and all(shbb in co.reachable(v) for u, v in loop_exits(co, a["loop"]))
        ctx.check(R, "%s-exit-reaches-shutdown" % name, ok, "graceful.shutdown() lies after the %s accept loop: %s" % (name, ok), (co, shbb))


def _r3_async_block(ctx, R, st, spbb, what):
    """The completion future is an async block: Ok sites lie after the Ready edges of both awaits; only the server task's own
    error leaves early.  Returns (the awaited wait group is the starter's, site fn, site bb) or None."""
    jc, jnode = what
    jh = [a for a in awaits(jc, fut_type_rx=r"task::JoinHandle")]
    jh = [a for a in jh if any(slice_has_call_at(st.slice(o), spbb) for o in _upvar_ops(st, jnode, jc, jc.slice(a["term"]["args"][0])))]
    if len(jh) != 1 or jh[0]["ready"] is None:
        ctx.lost(R, "the await of the server task's JoinHandle in the join future (%d found)" % len(jh))
        return None
    waits = jc.live_calls(r"^waitgroup::WaitGroup::wait$")
    ctx.check(R, "one-waitgroup-wait", len(waits) == 1, "WaitGroup::wait call sites in the join future: %d" % len(waits), jc)
    if len(waits) != 1:
        return None
    wbb, wt = waits[0]
    waw = awaits(jc, fut_call_bb=wbb)
    rd = return_defs(jc)
    oks = [b for b, tag in rd if tag == "Ok"]
    ok = bool(oks) and all(after_await(jc, jh[0], b) for b in oks)
    ctx.check(R, "ok-only-after-server-task", ok, "Ok sites of the join future: %d, all after the Ready edge of the server-task await: %s" % (len(oks), ok), jc)
    ok = len(waw) == 1 and bool(oks) and all(after_await(jc, waw[0], b) for b in oks)
    ctx.check(R, "ok-only-after-waitgroup", ok, "Ok sites of the join future: %d, all after the Ready edge of WaitGroup::wait().await: %s" % (len(oks), ok), (jc, wbb))
    # only an error leaves early, and only on the error side of the server task's own result -- whether that is
    # written `.map_err(..)?`, `match .. { Err(e) => return Err(..) }`, `if let Err(..)` or let-else
    splits = [sp for sp in (result_split(jc, l) for l in await_payloads(jc, jh[0])) if sp is not None]
    early = [(b, tag) for b, tag in rd if tag != "Ok"]
    if early and not splits:
        ctx.lost(R, "the place where the server task's JoinHandle result is split into Ok / Err")
        return None
    stray = sorted(set(tag for b, tag in early if not any(jc.edge_dominates(sp["switch_bb"], sp["err"], b) and sp["err"] != sp["ok"] for sp in splits)))
    ctx.check(R, "early-exit-only-with-the-task-error", not stray,
              "values the join future can yield: Ok after the waits, or an error on the Err side of the server task's result (%d such site(s)); elsewhere: %s" % (len(early), stray), jc)
    # ... and that error IS reported: no Ok site can be reached with the server task's result being Err
    reported = bool(splits) and bool(oks) and all(any(sp["err"] != sp["ok"] and jc.edge_dominates(sp["switch_bb"], sp["ok"], b) for sp in splits) for b in oks)
    ctx.check(R, "task-error-is-reported", reported, "every Ok site of the join future lies on the Ok side of a test of the server task's result (tests found: %d): %s" % (len(splits), reported), jc)
    # the wait group is the starter's
    wops = _upvar_ops(st, jnode, jc, jc.slice(wt["args"][0]))
    from_starter = len(wops) == 1 and st.slice(wops[0]).reads_field("handler_waitgroup") and st.slice(wops[0]).params() == [1]
    return from_starter, jc, wbb


def _r3_combinator_chain(ctx, R, st, spbb, what, site):
    """The completion future is a chain of futures-crate combinators (`join_handle.map_err(..).and_then(move |()| wg.wait().map(Ok))`):
    decided on the set of ways the chain can resolve (lib_c17.outcomes, from the combinators' semantics and the closures' MIR) --
    every Ok has both the server task and WaitGroup::wait() completed, every other outcome is the server task's own Err, and no
    Err is turned into an Ok.  Returns like _r3_async_block."""
    env, term = what
    outs = outcomes(env, term)
    tasks = {l["id"]: l for l in leaves(term, "task")}
    waits = {l["id"]: l for l in leaves(term, "wait")}
    mine = [i for i, l in tasks.items() if l["fn"] is st and l["bb"] == spbb]
    if len(tasks) != 1 or len(mine) != 1:
        ctx.lost(R, "the server task's JoinHandle as the one spawned task the combinator chain %s waits for (%d task leaf/leaves)" % (show(term), len(tasks)))
        return None
    T = mine[0]
    ctx.check(R, "one-waitgroup-wait", len(waits) == 1, "WaitGroup::wait futures in the combinator chain %s: %d" % (show(term), len(waits)), site)
    if len(waits) != 1:
        return None
    W, wleaf = list(waits.items())[0]
    oks = [o for o in outs if o["tag"] == "Ok"]
    ok = bool(oks) and all(T in o["done"] for o in oks)
    ctx.check(R, "ok-only-after-server-task", ok, "ways the chain resolves Ok: %d, all with the server task's JoinHandle resolved first: %s" % (len(oks), ok), site)
    ok = bool(oks) and all(W in o["done"] for o in oks)
    ctx.check(R, "ok-only-after-waitgroup", ok, "ways the chain resolves Ok: %d, all with WaitGroup::wait() completed: %s" % (len(oks), ok), (wleaf["fn"], wleaf["bb"]))
    early = [o for o in outs if o["tag"] != "Ok"]
    stray = sorted(set("%s from %s" % (o["tag"], o["origin"] if not isinstance(o["origin"], tuple) else "another future") for o in early if not (o["tag"] == "Err" and o["origin"] == T)))
    ctx.check(R, "early-exit-only-with-the-task-error", not stray,
              "ways the chain resolves: Ok after both waits, or the server task's own error (%d); elsewhere: %s" % (len(early) - len(stray), stray), site)
    swallowed = [o for o in oks if o["swallowed"]]
    reported = not swallowed and any(o["tag"] == "Err" and o["origin"] == T for o in outs)
    ctx.check(R, "task-error-is-reported", reported, "the server task's Err resolves the chain as Err (%s); ways an Err is turned into Ok: %d" % (reported, len(swallowed)), site)
    roots = env.root_operands(wleaf["fn"], wleaf["wg"])
    from_starter = len(roots) == 1 and roots[0][0] is st and st.slice(roots[0][1]).reads_field("handler_waitgroup") and st.slice(roots[0][1]).params() == [1]
    return from_starter, wleaf["fn"], wleaf["bb"]


def r3_join_waits(ctx):
    R = ctx.rule("C17.R3", "join future: awaits the server task and WaitGroup::wait() on the wait group whose worker is stored in the server state, yields Ok only after both completed, "
                 "and yields the server task's error as Err; written as an async block / async fn or as a chain of futures-crate combinators", floor=8)
    s = _start(ctx, R)
    if s is None:
        return
    st, (spbb, spt), co, node = s
    j = _join_future(ctx, R, st)
    if j is None:
        return
    idiom, what, jsl, site = j
    boxed = jsl.has_call(_BOXED)
    ctx.check(R, "join-future-is-boxed-shared", jsl.has_call(r"FutureExt::shared$") and boxed, "join_future = <join future>.boxed() / Box::pin(..) (%s) .shared() (%s)" % (boxed, jsl.has_call(r"FutureExt::shared$")), site)
    r = _r3_async_block(ctx, R, st, spbb, what) if idiom == "async" else _r3_combinator_chain(ctx, R, st, spbb, what, site)
    if r is None:
        return
    from_starter, jc, wbb = r
    ni = ctx.need_fn(ctx.ds, R, r"^server::HttpServerStarter::<C>::new_internal$")
    sa = [s2 for b, i, s2 in ni.aggregates(r"^server::HttpServerStarter$")]
    da = [s2 for b, i, s2 in ni.aggregates(r"^server::DropshotState$")]
    same = False
    if len(sa) == 1 and len(da) == 1:
        o1 = _field_op(ctx.ds, sa[0], "handler_waitgroup")
        o2 = _field_op(ctx.ds, da[0], "handler_waitgroup_worker")
        if o1 is not None and o2 is not None:
            n1 = ni.slice(o1).calls(r"^waitgroup::WaitGroup::new$")
            s2 = ni.slice(o2)
            n2 = s2.calls(r"^waitgroup::WaitGroup::new$")
            same = len(n1) == 1 and len(n2) == 1 and n1[0][1] == n2[0][1] and s2.has_call(r"^waitgroup::WaitGroup::worker$")
    ctx.check(R, "waitgroup-same-source", from_starter and same,
              "the awaited wait group is self.handler_waitgroup=%s; new_internal stores a worker of that same WaitGroup::new() in DropshotState.handler_waitgroup_worker=%s" % (from_starter, same), (jc, wbb))
    nst = [(f.id) for f in ctx.ds.F.values() for b, i, s2 in f.aggregates(r"^server::(HttpServerStarter|DropshotState)$")]
    ctx.check(R, "state-built-only-in-new_internal", sorted(nst) == sorted([ni.id, ni.id]), "HttpServerStarter / DropshotState are built in: %s" % sorted(set(nst)), ni)


JOIN_READERS = {
    r"^server::HttpServer::<C>::close::\{closure#0\}$": "awaits it (consumes the server)",
    r"^server::HttpServer::<C>::wait_for_shutdown$": "clones the Shared handle into a ShutdownWaitFuture",
    r"^<server::HttpServer<C> as [\w:]*Future>::poll$": "polls the Shared handle in place",
    r"^<server::HttpServer<C> as [\w:]*FusedFuture>::is_terminated$": "read-only query",
}


POLL = r"Future::poll$|FutureExt::poll_unpin$"


def r4_shared_result(ctx):
    R = ctx.rule("C17.R4", "one shared result: join_future is a futures::Shared built once; every reader only clones, polls or queries it", floor=10)
    a = ctx.ds.adts.get("server::HttpServer")
    if not a:
        ctx.lost(R, "ADT server::HttpServer")
        return
    f = [x for x in a["variants"][0]["fields"] if x["name"] == "join_future"]
    ok = len(f) == 1 and f[0]["ty"].startswith("futures::future::Shared<") and "Restricted" in f[0]["vis"]
    ctx.check(R, "join_future-is-Shared", ok, "HttpServer.join_future: %s" % (f[0]["ty"][:60] if f else "missing"), None, nontrivial=False)
    w = ctx.ds.adts.get("server::ShutdownWaitFuture")
    ok = bool(w) and w["variants"][0]["fields"][0]["ty"] == (f[0]["ty"] if f else None)
    ctx.check(R, "waiter-holds-the-same-Shared-type", ok, "ShutdownWaitFuture wraps the same Shared<..> type: %s" % ok, None, nontrivial=False)
    built = [(g.id) for g in ctx.ds.F.values() for b, i, s in g.aggregates(r"^server::HttpServer$")]
    ctx.check(R, "server-built-once", len(built) == 1 and built[0].endswith("HttpServerStarter::<C>::start"), "HttpServer aggregate sites: %s" % built, None)
    readers = [g for g in ctx.ds.F.values() if field_places(g, "join_future")]
    for g in readers:
        why = [r for p, r in JOIN_READERS.items() if re.search(p, g.id)]
        ctx.check(R, "join_future-reader:%s" % g.id, bool(why), "reads HttpServer.join_future: %s" % (why[0] if why else "NOT on the reviewed list of readers"), g)
    wf = ctx.need_fn(ctx.ds, R, r"^server::HttpServer::<C>::wait_for_shutdown$")
    r0 = wf.slice({"l": 0, "p": []})
    ok = r0.reads_field("join_future") and r0.has_call(r"clone::Clone::clone$") and any(x[0] == "agg" and x[1] == "server::ShutdownWaitFuture" for x in r0.atoms) and \
        not [c for c, b, t in r0.callees if not re.search(r"clone::Clone::clone$", c)]
    ctx.check(R, "wait_for_shutdown-clones", ok, "wait_for_shutdown returns ShutdownWaitFuture(self.join_future.clone()): %s" % ok, wf)
    pf = ctx.need_fn(ctx.ds, R, r"^<server::HttpServer<C> as [\w:]*Future>::poll$")
    # `Pin::new(&mut x).poll(cx)` and `x.poll_unpin(cx)` (FutureExt: exactly that, for an Unpin future) are the same poll
    polls = [(b, t) for b, t in pf.live_calls(POLL) if pf.slice(t["args"][0]).reads_field("join_future")]
    ok = len(polls) == 1 and polls[0][1]["dest"]["l"] == 0 and pf.must_pass([polls[0][0]])
    ctx.check(R, "server-future-polls-the-shared-result", ok, "Future for HttpServer returns the poll of self.join_future: %s" % ok, pf)
    sf = ctx.need_fn(ctx.ds, R, r"^<server::ShutdownWaitFuture as [\w:]*Future>::poll$")
    polls = [(b, t) for b, t in sf.live_calls(POLL) if "future::Shared" in (t.get("callee_args") or "") + (t.get("resolved") or "") + " ".join(t.get("gargs") or []) or
             (t["args"][0].get("pl") and "future::Shared<" in (sf.local_ty(t["args"][0]["pl"]["l"]) or "") and sf.slice(t["args"][0]).params() == [1])]
    ok = len(polls) == 1 and polls[0][1]["dest"]["l"] == 0 and sf.must_pass([polls[0][0]])
    ctx.check(R, "waiter-polls-the-shared-result", ok, "ShutdownWaitFuture::poll returns the poll of its Shared handle: %s" % ok, sf)


def r5_listener_owned(ctx):
    R = ctx.rule("C17.R5", "the listening socket dies with the server task: the HttpAcceptor (sole owner of the TcpListener) is moved into the spawned task and given to nothing that "
                 "outlives it; no leak API is used in the crate", floor=8)
    s = _start(ctx, R)
    if s is None:
        return
    st, (spbb, spt), co, node = s
    idx = [i for i, o in enumerate(node["rv"]["ops"]) if o.get("k") == "move" and st.slice(o).reads_field("http_acceptor") and st.slice(o).params() == [1]]
    ctx.check(R, "acceptor-moved-into-server-task", len(idx) == 1, "captured-by-move operands of the server task that are self.http_acceptor: %d" % len(idx), (st, spbb))
    others = [(b, how) for l, fi in field_places(st, "http_acceptor") for b, how in give_up_sites(st, l, fi) if not how.startswith("scope end") and how != "moved into %s" % co.raw["id"]]
    ctx.check(R, "acceptor-goes-nowhere-else", not others, "other places start() hands self.http_acceptor to: %s" % [h for _, h in others], st)
    if len(idx) == 1:
        sites = give_up_sites(co, 1, idx[0])
        bad = [how for b, how in sites if not (how.startswith("scope end") or how == "passed to server::HttpsAcceptor::new")]
        ctx.check(R, "acceptor-stays-in-the-task", not bad, "inside the task the acceptor is given to: %s" % sorted(set(h for _, h in sites)), co)
        hn = ctx.need_fn(ctx.ds, R, r"^server::HttpsAcceptor::new$")
        r0 = hn.slice({"l": 0, "p": []})
        ok = r0.has_call(r"^server::HttpsAcceptor::new_stream$") and 3 in r0.params()
        https = [b for b, t in co.live_calls(r"^server::HttpsAcceptor::new$")]
        loc = co.blocks[https[0]]["term"]["dest"]["l"] if len(https) == 1 else None
        dropped = loc is not None and any(how.startswith("scope end") for b, how in give_up_sites(co, loc))
        ctx.check(R, "https-acceptor-owns-it-inside-the-task", ok and dropped, "HttpsAcceptor::new moves the HttpAcceptor into its boxed stream=%s; the HttpsAcceptor is a local of the task dropped at scope end=%s" % (ok, dropped), hn)
    a = ctx.ds.adts.get("server::HttpAcceptor")
    tcp = [x for x in a["variants"][0]["fields"] if x["name"] == "tcp"] if a else []
    ctx.check(R, "acceptor-owns-the-listener-by-value", len(tcp) == 1 and tcp[0]["ty"] == "tokio::net::TcpListener", "HttpAcceptor.tcp: %s" % (tcp[0]["ty"] if tcp else "missing"), None, nontrivial=False)
    built = [(g, b, s2) for g in ctx.ds.F.values() for b, i, s2 in g.aggregates(r"^server::HttpAcceptor$")]
    ok = len(built) == 1 and built[0][0].id.endswith("::new_internal") and built[0][0].slice(built[0][2]["rv"]["ops"][0]).has_call(r"tokio::net::TcpListener::from_std$")
    ctx.check(R, "one-acceptor-one-listener", ok, "HttpAcceptor aggregate sites: %s" % [g.id for g, _, _ in built], built[0][0] if built else None)
    binds = [(f.id) for f, b, t in callers(ctx.ds, r"TcpListener::(bind|from_std)$") if not f.id.startswith("test_util")]
    ctx.check(R, "listener-created-only-in-new_internal", bool(binds) and all(x.endswith("::new_internal") for x in binds), "TcpListener::bind/from_std callers: %s" % sorted(set(binds)), None)
    leaks = [(f.id, t["callee"]) for f, b, t in callers(ctx.ds, LEAK) if not f.id.startswith("test_util") and (f.id, t["callee"]) not in LEAK_REVIEWED]
    # Added after adversary change C17-I (SO_LINGER set to zero on every accepted socket "to stay out of TIME_WAIT": when hyper closes a
    # connection at graceful shutdown the kernel then discards what is still queued, so an in-flight response reaches its connected
    # client truncated and reset while close() reports Ok): the crate never asks for an abortive close
    lsites = [(f, b, t["callee"]) for f, b, t in callers(ctx.ds, r"::set_linger$|::set_linger_sec$") if not f.id.startswith("test_util")]
    ctx.check(R, "no-abortive-close", not lsites, "SO_LINGER is set (a zero or short linger turns the close of a served connection into a reset that drops unsent response bytes) at: %s"
              % ([(f.id, c) for f, b, c in lsites] or "no site"), (lsites[0][0], lsites[0][1]) if lsites else None, nontrivial=False)
    ctx.check(R, "no-leak-api-in-crate", not leaks, "mem::forget / Box::leak / into_raw_fd / ManuallyDrop::new / into_std / transmute calls: %s" % leaks, None)



def r3b_worker_lives_with_handler(ctx):
    """C17.R3 waits for the waitgroup; that only waits for detached handlers if each detached handler task owns a
    worker for as long as it runs — C16.R1, re-evaluated here because its violation is a C17 violation too (seed C17-A)."""
    from . import c16
    from .lib_c01 import Renamed
    c16.r1_mode_table(Renamed(ctx, "C17.R3b", "every detached handler task holds a waitgroup worker until its handler future completed, so shutdown's wait covers it"))



def r6_waiters_and_timers(ctx):
    """Added after adversary changes C17-C (`is_terminated()` also reported `peek().is_some()`: once one waiter had seen shutdown finish,
    every other waiter claimed to be terminated and a fused `select!` never delivered its result) and C17-D (`builder.http1().http2().timer(..)`:
    only HTTP/2 got a timer, hyper's HTTP/1 header-read timeout became inactive and shutdown never finished while a half-sent request was open)."""
    from .lib import PLUMBING, callee_allow
    from .lib_c16 import server_task
    R = ctx.rule("C17.R6", "each waiter's FusedFuture::is_terminated is exactly that of its own handle on the shared completion future; "
                 "the connection builder has a timer on BOTH protocol sub-builders (hyper's HTTP/1 header-read timeout is what lets shutdown finish past a half-sent request)", floor=4)
    impls = [f for f in ctx.ds.F.values() if re.search(r"^<server::(ShutdownWaitFuture|HttpServer<C>) as futures::future::FusedFuture>::is_terminated$", f.id)]
    ctx.check(R, "fused-impls", len(impls) == 2, "FusedFuture impls of the shutdown waiters: %d" % len(impls), nontrivial=False)
    for f in impls:
        ret = f.slice({"l": 0, "p": []})
        calls = [c for c in ret.callee_names() if not any(re.search(p, c) for p in PLUMBING)]
        own = ret.params() == [1] and all(c.endswith("FusedFuture::is_terminated") for c in calls) and len(calls) == 1
        pure = not any(a[0] in ("binop", "unop", "lit") for a in ret.atoms) and len(list(f.switches())) == 0
        ctx.check(R, "is_terminated-is-the-handle's:%s" % f.id.split(" as ")[0].lstrip("<"), own and pure,
                  "is_terminated() = is_terminated() of the waiter's own Shared handle and nothing else: calls %s, branches %d" % (calls, len(list(f.switches()))), f)
    stt = server_task(ctx.ds)
    if isinstance(stt, str):
        ctx.lost(R, stt)
        return
    st, sp, co, node = stt
    serves = co.live_calls(r"auto::Builder::<E>::serve_connection(_with_upgrades)?$")
    for proto, pat, sub in (("http1", r"auto::Http1Builder::<'_, E>::timer$", r"auto::Builder::<E>::http1$"), ("http2", r"auto::Http2Builder::<'_, E>::timer$", r"auto::Builder::<E>::http2$")):
        timers = co.live_calls(pat)
        ok = False
        for bb, t in timers:
            recv = co.slice(t["args"][0])
            ok = recv.has_call(sub) and recv.has_call(r"auto::Builder::<E>::new$") and all(co.dominates(bb, sbb) for sbb, _ in serves) and bool(serves)
        ctx.check(R, "timer-on-%s" % proto, ok, "a timer is installed on the %s sub-builder of the one connection builder before any connection is served: %s" % (proto, ok), co)


def r8_accept_loops_wait_only_in_the_select(ctx):
    """`when shutdown is requested the server stops accepting`: between connections the server task waits in the select! that polls the
    close receiver and nowhere else, so a requested shutdown is always seen.  This is C18.R2, re-evaluated here (adversary change C17-L:
    a connection-slot semaphore was acquired at the top of each loop iteration, outside the select!; with all slots taken by idle
    keep-alive connections close() never returned)."""
    from . import c18
    from .lib_c01 import Renamed
    c18.r2_isolation(Renamed(ctx, "C17.R8", "the accept loops await nothing but their select! (which polls the close receiver): no other wait can postpone a requested shutdown"))


RULES = [("C17.R8", r8_accept_loops_wait_only_in_the_select), ("C17.R6", r6_waiters_and_timers), ("C17.R3b", r3b_worker_lives_with_handler), ("C17.R1", r1_close_order), ("C17.R2", r2_server_task), ("C17.R3", r3_join_waits), ("C17.R4", r4_shared_result), ("C17.R5", r5_listener_owned)]

_S = "dropshot/src/server.rs"
_I32 = " " * 32
_I28 = " " * 28
_JOIN_BLOCK = ("        let join_handle = async move {\n            // After the server shuts down, we also want to wait for any\n            // detached handler futures to complete.\n"
               "            () = join_handle\n                .await\n                .map_err(|e| format!(\"server stopped: {e}\"))?;\n            () = handler_waitgroup.wait().await;\n            Ok(())\n        };")
_SEL_OLD = "                None => loop {\n                    tokio::select! {\n                        (sock, remote_addr) = http_acceptor.accept() => {\n"
_SEL_TAIL_OLD = ("                            tokio::spawn(fut);\n                        },\n\n                        _ = &mut rx => {\n                            info!(log, \"beginning graceful shutdown\");\n"
                 "                            break;\n                        }\n                    }\n                },")
_SEL_TAIL_NEW = "                            tokio::spawn(fut);\n                        }\n                    }\n                },"


def _sel_new(accept_arm):
    """The HTTP accept loop with an expression-form select! that only classifies the event, a let-else guard that leaves the loop, and the
    per-connection code at loop-body level."""
    return ("                None => loop {\n                    let next_conn = tokio::select! {\n                        accepted = http_acceptor.accept() => " + accept_arm + ",\n"
            "                        _ = &mut rx => None,\n                    };\n                    let Some((sock, remote_addr)) = next_conn else {\n"
            "                        info!(log, \"beginning graceful shutdown\");\n                        break;\n                    };\n                    {\n                        {\n")


SELFTEST = [
    {"name": "https-watch-skipped", "kind": "mutant", "why": "HTTPS connections are not registered with the graceful watcher: shutdown neither signals them nor waits for their in-flight responses",
     "edits": [(_S, _I32 + "let fut = graceful.watch(fut.into_owned());", _I32 + "let fut = fut.into_owned();")],
     "expect": ["C17.R2"]},
    {"name": "early-return-before-shutdown", "kind": "mutant", "why": "the HTTPS server task ends on the close signal without awaiting graceful.shutdown(): in-flight requests are not waited for",
     "edits": [(_S, _I32 + "info!(log, \"beginning graceful shutdown\");\n" + _I32 + "break;", _I32 + "info!(log, \"beginning graceful shutdown\");\n" + _I32 + "return;")],
     "expect": ["C17.R2"]},
    {"name": "join-skips-waitgroup", "kind": "mutant", "why": "shutdown completes while detached handlers are still running",
     "edits": [(_S, "            () = handler_waitgroup.wait().await;", "            drop(handler_waitgroup);")],
     "expect": ["C17.R3"]},
    {"name": "state-not-dropped-in-close", "kind": "mutant", "why": "close() awaits join_future while still holding a waitgroup worker: it can never complete",
     "edits": [(_S, "        mem::drop(self.app_state);\n", "")],
     "expect": ["C17.R1"]},
    {"name": "http-loop-breaks-after-connection", "kind": "mutant", "why": "the accept loop is left without a close request",
     "edits": [(_S, "\n" + _I28 + "tokio::spawn(fut);\n", "\n" + _I28 + "tokio::spawn(fut);\n" + _I28 + "break;\n")],
     "expect": ["C17.R2"]},
    {"name": "join-before-signal", "kind": "mutant", "why": "close() waits for the server before telling it to stop",
     "edits": [(_S, "        mem::drop(self.app_state);\n\n        self.join_future.await\n", "        mem::drop(self.app_state);\n\n        let r = self.join_future.clone().await;\n        if r.is_err() { return r; }\n        self.join_future.await\n"),
               (_S, "        self.closer\n            .close_channel\n            .take()\n            .expect(\"cannot close twice\")\n            .send(())\n            .expect(\"failed to send close signal\");\n\n", ""),
               (_S, "    pub async fn close(mut self) -> Result<(), String> {\n", "    pub async fn close(mut self) -> Result<(), String> {\n        let r0 = self.join_future.clone().await;\n        self.closer.close_channel.take().expect(\"cannot close twice\").send(()).expect(\"failed to send close signal\");\n        if r0.is_err() { return r0; }\n")],
     "expect": ["C17.R1"]},
    {"name": "listener-leaked", "kind": "mutant", "why": "the HTTPS acceptor (and its TcpListener) is leaked at loop exit: the port stays open after shutdown",
     "edits": [(_S, "                    }\n                }\n                None => loop {", "                    }\n                    std::mem::forget(https_acceptor);\n                }\n                None => loop {")],
     "expect": ["C17.R5"]},
    {"name": "fresh-future-per-waiter", "kind": "mutant", "why": "wait_for_shutdown hands out something other than a clone of the shared join result",
     "edits": [(_S, "        ShutdownWaitFuture(self.join_future.clone())", "        ShutdownWaitFuture(async { Ok(()) }.boxed().shared())")],
     "expect": ["C17.R4"]},
    {"name": "rename-locals", "kind": "benign", "why": "behaviour-preserving: locals renamed in the server task",
     "edits": [(_S, "            let graceful =\n                hyper_util::server::graceful::GracefulShutdown::new();", "            let conn_watcher =\n                hyper_util::server::graceful::GracefulShutdown::new();"),
               (_S, _I32 + "let fut = graceful.watch(fut.into_owned());\n" + _I32 + "tokio::spawn(fut);", _I32 + "let watched = conn_watcher.watch(fut.into_owned());\n" + _I32 + "tokio::spawn(watched);"),
               (_S, _I28 + "let fut = graceful.watch(fut.into_owned());", _I28 + "let fut = conn_watcher.watch(fut.into_owned());"),
               (_S, "            graceful.shutdown().await\n", "            conn_watcher.shutdown().await\n")]},
    {"name": "close-binds-state-then-drops", "kind": "benign", "why": "behaviour-preserving: the state Arc is moved to a local and dropped, still between the signal and the join",
     "edits": [(_S, "        mem::drop(self.app_state);\n", "        let state = self.app_state;\n        drop(state);\n")]},
    {"name": "spawn-inline-and-logging", "kind": "benign", "why": "behaviour-preserving: watch() result passed to spawn directly; log lines added",
     "edits": [(_S, _I28 + "let fut = graceful.watch(fut.into_owned());\n" + _I28 + "tokio::spawn(fut);", _I28 + "debug!(log, \"serving connection\");\n" + _I28 + "tokio::spawn(graceful.watch(fut.into_owned()));"),
               (_S, "            graceful.shutdown().await\n", "            debug!(log, \"waiting for connections to finish\");\n            graceful.shutdown().await\n")]},
    {"name": "join-awaits-bound-futures", "kind": "benign", "why": "behaviour-preserving: the wait future is bound to a local before being awaited; Ok built through a local",
     "edits": [(_S, "            () = handler_waitgroup.wait().await;\n            Ok(())", "            let all_handlers_done = handler_waitgroup.wait();\n            all_handlers_done.await;\n            let res = Ok(());\n            res")]},
    {"name": "join-error-by-match-and-box-pin", "kind": "benign", "why": "behaviour-preserving: `.map_err(..)?` on the server task's result written as a match with `return Err(..)`; the join future pinned with Box::pin instead of .boxed()",
     "edits": [(_S, "            () = join_handle\n                .await\n                .map_err(|e| format!(\"server stopped: {e}\"))?;", "            match join_handle.await {\n                Ok(()) => {}\n                Err(join_error) => {\n                    return Err(format!(\"server stopped: {join_error}\"));\n                }\n            }"),
               (_S, "            join_future: join_handle.boxed().shared(),", "            join_future: {\n                let pinned: BoxFuture<'static, Result<(), String>> = Box::pin(join_handle);\n                pinned.shared()\n            },")]},
    {"name": "join-future-is-an-async-fn", "kind": "benign", "why": "behaviour-preserving: the join future is a private `async fn` (defined after its user) called with the JoinHandle and the WaitGroup, instead of an inline async block",
     "edits": [(_S, "        let join_handle = async move {\n            // After the server shuts down, we also want to wait for any\n            // detached handler futures to complete.\n            () = join_handle\n                .await\n                .map_err(|e| format!(\"server stopped: {e}\"))?;\n            () = handler_waitgroup.wait().await;\n            Ok(())\n        };",
                "        let join_handle = server_and_handlers_done(join_handle, handler_waitgroup);"),
               (_S, "/// Accepts TCP connections like a `TcpListener`, but ignores transient errors", "async fn server_and_handlers_done(\n    server_task: tokio::task::JoinHandle<()>,\n    handler_waitgroup: WaitGroup,\n) -> Result<(), String> {\n    if let Err(e) = server_task.await {\n        return Err(format!(\"server stopped: {e}\"));\n    }\n    handler_waitgroup.wait().await;\n    Ok(())\n}\n\n/// Accepts TCP connections like a `TcpListener`, but ignores transient errors")]},
    {"name": "join-future-by-combinators", "kind": "benign", "why": "behaviour-preserving: the completion future written with the futures-crate combinators instead of an async block -- map_err passes Ok through, and_then runs `wg.wait().map(Ok)` only after the server task resolved Ok (second enumerated idiom of R3, decided on the outcomes of the chain)",
     "edits": [(_S, _JOIN_BLOCK, "        let join_handle = join_handle\n            .map_err(|e| format!(\"server stopped: {e}\"))\n            .and_then(move |()| handler_waitgroup.wait().map(Ok));")]},
    {"name": "join-future-by-combinators-async-tail", "kind": "benign", "why": "behaviour-preserving: as above, the and_then closure returns an async block that awaits the wait group",
     "edits": [(_S, _JOIN_BLOCK, "        let server_done = join_handle.map_err(|e| format!(\"server stopped: {e}\"));\n        let join_handle = server_done.and_then(move |()| async move {\n            handler_waitgroup.wait().await;\n            Ok(())\n        });")]},
    {"name": "combinators-skip-waitgroup", "kind": "mutant", "why": "combinator spelling of the completion future that resolves Ok as soon as the server task ended: detached handlers are not waited for",
     "edits": [(_S, _JOIN_BLOCK, "        let join_handle = join_handle\n            .map_err(|e| format!(\"server stopped: {e}\"))\n            .and_then(move |()| {\n                drop(handler_waitgroup);\n                futures::future::ready(Ok::<(), String>(()))\n            });")],
     "expect": ["C17.R3"]},
    {"name": "combinators-swallow-task-error", "kind": "mutant", "why": "combinator spelling in which a panicked / cancelled server task is reported as a clean shutdown",
     "edits": [(_S, _JOIN_BLOCK, "        let join_handle = join_handle\n            .map(|_| Ok::<(), String>(()))\n            .and_then(move |()| handler_waitgroup.wait().map(Ok));")],
     "expect": ["C17.R3"]},
    {"name": "combinators-wait-on-fresh-waitgroup", "kind": "mutant", "why": "combinator spelling that waits on a new, empty wait group: resolves at once, detached handlers still running",
     "edits": [(_S, _JOIN_BLOCK, "        let join_handle = join_handle\n            .map_err(|e| format!(\"server stopped: {e}\"))\n            .and_then(move |()| {\n                drop(handler_waitgroup);\n                WaitGroup::new().wait().map(Ok)\n            });")],
     "expect": ["C17.R3"]},
    {"name": "combinators-error-recovered-to-ok", "kind": "mutant", "why": "combinator spelling with an or_else that turns every error into Ok before anything was waited for (a combinator outside the enumerated ones: fails closed)",
     "edits": [(_S, _JOIN_BLOCK, "        let join_handle = join_handle\n            .map_err(|e| format!(\"server stopped: {e}\"))\n            .or_else(|_e: String| futures::future::ready(Ok::<(), String>(())))\n            .and_then(move |()| handler_waitgroup.wait().map(Ok));")],
     "expect": ["C17.R3"]},
    {"name": "join-ignores-task-error", "kind": "mutant", "why": "a panicked / cancelled server task is reported as a clean shutdown",
     "edits": [(_S, "            () = join_handle\n                .await\n                .map_err(|e| format!(\"server stopped: {e}\"))?;", "            let _ = join_handle.await;")],
     "expect": ["C17.R3"]},
    {"name": "join-early-error-not-from-server-task", "kind": "mutant", "why": "the shared shutdown result can be an error although the server task ended cleanly, and is produced before detached handlers were waited for",
     "edits": [(_S, "            () = handler_waitgroup.wait().await;\n            Ok(())", "            if std::env::var_os(\"DROPSHOT_FAST_SHUTDOWN\").is_some() {\n                return Err(String::from(\"not waiting for handlers\"));\n            }\n            () = handler_waitgroup.wait().await;\n            Ok(())")],
     "expect": ["C17.R3"]},
    {"name": "close-rebuilds-join-result", "kind": "benign", "why": "behaviour-preserving: close() matches on the join result and rebuilds Ok / Err on the corresponding arm",
     "edits": [(_S, "        mem::drop(self.app_state);\n\n        self.join_future.await\n", "        mem::drop(self.app_state);\n\n        match self.join_future.await {\n            Ok(()) => Ok(()),\n            Err(message) => Err(message),\n        }\n")]},
    {"name": "close-swallows-join-error", "kind": "mutant", "why": "close() reports success although the server task failed",
     "edits": [(_S, "        mem::drop(self.app_state);\n\n        self.join_future.await\n", "        mem::drop(self.app_state);\n\n        match self.join_future.await {\n            Ok(()) => Ok(()),\n            Err(_message) => Ok(()),\n        }\n")],
     "expect": ["C17.R1"]},
    {"name": "biased-select-close-first", "kind": "benign", "why": "the property holds: a biased select! that polls the close receiver first sees a requested shutdown on the next iteration however busy the listener is",
     "edits": [(_S, _SEL_OLD, "                None => loop {\n                    tokio::select! {\n                        biased;\n                        _ = &mut rx => {\n                            info!(log, \"beginning graceful shutdown\");\n"
                "                            break;\n                        }\n                        (sock, remote_addr) = http_acceptor.accept() => {\n"),
               (_S, _SEL_TAIL_OLD, "                            tokio::spawn(fut);\n                        },\n                    }\n                },")]},
    {"name": "biased-select-accept-first", "kind": "mutant", "why": "a biased select! with the accept branch first never polls the close receiver while connections keep arriving: a requested shutdown is ignored under load",
     "edits": [(_S, _SEL_OLD, "                None => loop {\n                    tokio::select! {\n                        biased;\n                        (sock, remote_addr) = http_acceptor.accept() => {\n")],
     "expect": ["C17.R2"]},
    {"name": "select-classifies-then-let-else-breaks", "kind": "benign", "why": "behaviour-preserving: the select! only turns the event into an Option (Some(connection) / None for the close signal); a let-else on it logs and breaks; the connection is served at loop-body level (the exit is decided under the hypotheses `the select resolved to branch i`)",
     "edits": [(_S, _SEL_OLD, _sel_new("Some(accepted)")), (_S, _SEL_TAIL_OLD, _SEL_TAIL_NEW)]},
    {"name": "select-classifies-connection-as-close", "kind": "mutant", "why": "same spelling, but the accept branch yields None for some peers: a connection from such a peer ends the accept loop although nobody asked the server to close",
     "edits": [(_S, _SEL_OLD, _sel_new("if accepted.1.ip().is_unspecified() { None } else { Some(accepted) }")), (_S, _SEL_TAIL_OLD, _SEL_TAIL_NEW)],
     "expect": ["C17.R2"]},
    {"name": "close-signal-via-local", "kind": "benign", "why": "behaviour-preserving: the sender is taken into a local first",
     "edits": [(_S, "        self.closer\n            .close_channel\n            .take()\n            .expect(\"cannot close twice\")\n            .send(())\n            .expect(\"failed to send close signal\");", "        let sender = self.closer.close_channel.take().expect(\"cannot close twice\");\n        let sent = sender.send(());\n        sent.expect(\"failed to send close signal\");")]},
]

LEVEL_TEXT += " Also (R3b = C16.R1): each detached handler task owns a waitgroup worker until its handler future completed, which is what makes the join's wait cover detached handlers."

LEVEL_TEXT += " Also (R6): each waiter's is_terminated() is exactly that of its own shared handle, and both protocol sub-builders of the connection builder get a timer (hyper's HTTP/1 header-read timeout lets shutdown finish past a half-sent request). Also (R2): the select! polling the close receiver starts at a random branch or is biased with the close receiver first, so a requested shutdown is seen under load; (R5) the crate never sets SO_LINGER (no abortive close of a served connection). Also (R8 = C18.R2): the accept loops await nothing but their select!. Also (R1): no caller of close() in the crate races it with a timer or a select."


SELFTEST += [
    {"name": "accepted-socket-nodelay", "kind": "benign", "why": "the property holds: TCP_NODELAY on accepted sockets does not affect what a graceful close delivers",
     "edits": [(_S, "                        (sock, remote_addr) = http_acceptor.accept() => {\n", "                        (sock, remote_addr) = http_acceptor.accept() => {\n                            let _ = sock.set_nodelay(true);\n")]},
    {"name": "accepted-socket-zero-linger", "kind": "mutant", "expect": ["C17.R5"], "why": "zero SO_LINGER: the close at graceful shutdown resets the connection and drops queued response bytes",
     "edits": [(_S, "                        (sock, remote_addr) = http_acceptor.accept() => {\n", "                        (sock, remote_addr) = http_acceptor.accept() => {\n                            let _ = sock.set_linger(Some(std::time::Duration::ZERO));\n")]},
]
