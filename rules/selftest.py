"""E6: self-validation of the checker.  Mutants must fire (naming an expected rule),
benign variants must stay silent.  Every variant is applied to a scratch copy of the
repository under /tmp (removed afterwards) and analysed by the same rules.

A variant whose anchor text no longer exists in /repo is *skipped* (reported in the
evidence, never a property violation): frozen text lives only here, never in a rule.
"""
import json
import os
import shutil
import subprocess
import sys
import tempfile

from . import extract

VERIF = extract.VERIF


def make_copy(repo):
    d = tempfile.mkdtemp(prefix="vself-")
    for top in ("dropshot", "dropshot_endpoint"):
        shutil.copytree(os.path.join(repo, top), os.path.join(d, top), ignore=shutil.ignore_patterns("target"))
    for fn in ("Cargo.toml", "Cargo.lock", "rust-toolchain.toml", "rustfmt.toml"):
        if os.path.exists(os.path.join(repo, fn)):
            shutil.copy(os.path.join(repo, fn), d)
    return d


def apply_variant(d, v, repo):
    """Returns None if applied, else a reason string (skipped)."""
    if v.get("revert"):
        try:
            diff = subprocess.check_output(["git", "-C", repo, "show", v["revert"]], stderr=subprocess.DEVNULL)
        except Exception:
            return "commit %s not found" % v["revert"]
        r = subprocess.run(["patch", "-p1", "-R", "-s", "-f"], input=diff, cwd=d, stdout=subprocess.PIPE, stderr=subprocess.STDOUT)
        if r.returncode:
            return "reverse patch of %s does not apply" % v["revert"]
    if v.get("patch"):
        p = os.path.join(VERIF, v["patch"])
        r = subprocess.run(["patch", "-p1", "-s", "-f", "-i", p], cwd=d, stdout=subprocess.PIPE, stderr=subprocess.STDOUT)
        if r.returncode:
            return "patch %s does not apply" % v["patch"]
    for e in v.get("edits", []):
        path, old, new = e
        fp = os.path.join(d, path)
        if not os.path.exists(fp):
            return "file %s missing" % path
        s = open(fp).read()
        if s.count(old) != 1:
            return "anchor text occurs %d times in %s" % (s.count(old), path)
        open(fp, "w").write(s.replace(old, new))
    return None


def run_variant(prop, v, repo="/repo"):
    d = make_copy(repo)
    try:
        why = apply_variant(d, v, repo)
        if why:
            return {"name": v["name"], "kind": v["kind"], "status": "skipped", "reason": why}
        env = dict(os.environ, VERIF_REPO=d, VERIF_TIER="quick")
        evp0 = os.path.join(VERIF, ".cache", "scratch-evidence", os.path.basename(d), prop + ".json")
        for attempt in range(2):
            r = subprocess.run([sys.executable, "-m", "rules.main", prop, "--tier", "quick"], cwd=VERIF, env=env,
                               stdout=subprocess.PIPE, stderr=subprocess.STDOUT, text=True)
            if os.path.exists(evp0) or "could not be analysed" in r.stdout:
                break   # otherwise the run itself crashed (e.g. a fact set evicted under heavy concurrency): once more
        out = r.stdout
        if "could not be analysed" in out:
            return {"name": v["name"], "kind": v["kind"], "status": "does-not-compile", "reason": out[-400:]}
        evd = os.path.join(VERIF, ".cache", "scratch-evidence", os.path.basename(d))
        evp = os.path.join(evd, prop + ".json")
        fired = []
        try:
            ev = json.load(open(evp))
            fired = sorted(r_ for r_, x in ev["coverage"]["rules"].items() if x["violated"])
        except Exception:
            pass
        named = [l.strip() for l in out.splitlines() if l.strip().startswith("instance ")][:4]
        res = {"name": v["name"], "kind": v["kind"], "fired_rules": fired, "exit": r.returncode, "reports": named}
        if v["kind"] == "mutant":
            exp = v.get("expect", [])
            ok = r.returncode == 1 and (not exp or any(e in fired for e in exp))
            res["status"] = "caught" if ok else "MISSED"
            res["expected"] = exp
        else:
            res["status"] = "silent" if r.returncode == 0 and not fired else "FALSE-ALARM"
        return res
    finally:
        shutil.rmtree(d, ignore_errors=True)
        shutil.rmtree(os.path.join(VERIF, ".cache", "scratch-evidence", os.path.basename(d)), ignore_errors=True)


def seeded_variants(prop):
    """Independently written breaking changes kept under /verif/seeded/ that this property's check is
    recorded to report: they are replayed as mutants so that a later rule change cannot silently lose them."""
    import glob
    out = []
    for mp in sorted(glob.glob(os.path.join(VERIF, "seeded", "*", "meta.json"))):
        try:
            m = json.load(open(mp))
        except Exception:
            continue
        det = m.get("detected_by", {}).get(prop)
        if det and det.get("status") == "caught":
            out.append({"name": "seed-" + m["id"], "kind": "mutant", "patch": os.path.relpath(os.path.join(os.path.dirname(mp), "patch.diff"), VERIF),
                        "expect": det.get("fired_rules", []), "why": m.get("breaks", "")[:200]})
    return out


def benign_variants(prop):
    """Independently written behaviour-preserving refactorings of the property's mechanism (kept under
    /verif/benign/<PROP>-R<n>/): the check must stay silent on them."""
    import glob
    out = []
    for mp in sorted(glob.glob(os.path.join(VERIF, "benign", "*", "meta.json"))):
        try:
            m = json.load(open(mp))
        except Exception:
            continue
        d = os.path.dirname(mp)
        # a refactoring written for another property is replayed here too when it once alarmed this check
        if not os.path.basename(d).startswith(prop + "-") and prop not in m.get("also_check", []):
            continue
        ea = m.get("expected_alarm")
        if ea and (not isinstance(ea, dict) or prop in ea):
            continue  # documented limitation (for every check, or for the checks named): see meta.json and DESIGN.md §9.7
        out.append({"name": "benign-" + os.path.basename(d), "kind": "benign", "patch": os.path.relpath(os.path.join(d, "patch.diff"), VERIF), "why": m.get("why_equivalent", "")[:200]})
    return out


def run(prop, mod, only=None, workers=4):
    from concurrent.futures import ThreadPoolExecutor
    variants = list(getattr(mod, "SELFTEST", [])) + seeded_variants(prop) + benign_variants(prop)
    todo = [v for v in variants if not only or v["name"] in only]
    if not todo:
        return []
    with ThreadPoolExecutor(max_workers=workers) as ex:
        return list(ex.map(lambda v: run_variant(prop, v), todo))


if __name__ == "__main__":
    import importlib
    prop = sys.argv[1].upper()
    mod = importlib.import_module("rules." + prop.lower())
    res = run(prop, mod, only=set(sys.argv[2:]) or None)
    bad = 0
    for r in res:
        print("%-12s %-28s %-8s %s %s" % (r["status"], r["name"], r["kind"], r.get("fired_rules", ""), r.get("reason", "")[:200]))
        if r["status"] in ("MISSED", "FALSE-ALARM"):
            bad += 1
            for x in r.get("reports", []):
                print("      ", x[:200])
    sys.exit(1 if bad else 0)
