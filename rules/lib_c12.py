"""Helpers shared by c12.py and c07.py: the typed-response family (HttpCodedResponse impls, their
evaluated STATUS_CODE, the `From<X> for HttpHandlerResult` conversions) and small CFG utilities."""
import json
import re

from .lib import PLUMBING, callee_allow, operand_local

STATUS_PATH = r"^handler::HttpCodedResponse::STATUS_CODE$"
TO_STRING = [r"string::ToString::to_string$", r"borrow::ToOwned::to_owned$", r"string::String::from$", r"<impl .*String>::from$"]


def norm_ty(s):
    """`handler::HttpResponseOk<T/#0>` -> `handler::HttpResponseOk<T>` (generic parameter indices dropped)."""
    return re.sub(r"/#\d+", "", s or "")


def coded_impls(ds):
    """[{self, impl, items, status (int|None)}] for every `impl HttpCodedResponse for X` in the crate."""
    out = []
    for i in ds.impls:
        if not i["trait"].endswith("handler::HttpCodedResponse"):
            continue
        cid = None
        for it in i["items"]:
            if it["name"] == "STATUS_CODE" and it["kind"] == "Const":
                cid = it["id"]
        val = None
        for c in ds.const_list:
            if cid is not None and c["id"] == cid and c.get("val") and "int" in c["val"]:
                val = c["val"]["int"]
        out.append({"self": norm_ty(i["self"]), "impl": i["impl"], "items": i["items"], "status": val, "const": cid})
    return out


def from_impls(ds):
    """{X: Fn} for every `impl From<X> for Result<Response<Body>, HttpError>` whose X is in module handler."""
    out = {}
    for i in ds.impls:
        if i["trait"] != "std::convert::From" or "http::Response<body::Body>, error::HttpError>" not in i["self"]:
            continue
        m = re.search(r"impl std::convert::From<(.*)> for std::result::Result<", i["impl"])
        if not m:
            continue
        for it in i["items"]:
            if it["kind"] == "Fn" and it["name"] == "from":
                out[norm_ty(m.group(1))] = ds.fn(it["id"])
    return out


def self_of_call(t):
    """`<X as Trait>::method` -> X for a trait-method call term (from callee_args)."""
    ca = t.get("callee_args") or ""
    m = re.match(r"^<(.*) as [^<>]*(?:<.*>)?>::\w+(?:::<.*>)?$", ca)
    if m:
        x = norm_ty(m.group(1))
        ga = t.get("gargs") or []
        if ga and "::" not in x and "::" in ga[0] and "/#" not in ga[0]:
            # the call sits in an inlined generic helper: callee_args still prints the helper's type parameter (`<R as ..>`),
            # the engine-substituted generic arguments carry the caller's concrete Self type
            return norm_ty(ga[0])
        return x
    # inherent / default method named through the type: `X::method`
    return None


def ret_ok_sites(f):
    """Reachable `_0 = Result::Ok(..)` aggregate sites."""
    reach = f.reachable(0)
    return [(b, st) for b, i, st in f.aggregates(r"^std::result::Result$", "Ok") if st["pl"]["l"] == 0 and not st["pl"]["p"] and b in reach]


def accept_edges(f, call_pattern):
    """Switches on the discriminant of a value derived from a call matching call_pattern
    (directly, through map_err / Try::branch, ...).  Returns [(switch_bb, ok_target, [other targets])] where
    ok_target is the edge taken for the Ok / Continue / Some variant."""
    out = []
    reach = f.reachable(0)
    for sbb, t in f.switches():
        if sbb not in reach:
            continue
        info = f.switch_on(sbb)
        if info["kind"] != "discr":
            continue
        sl = f.slice(info["place"])
        if not sl.has_call(call_pattern):
            continue
        okv = [v for v, n in info["variants"].items() if n in ("Ok", "Continue", "Some")]
        if len(okv) != 1:
            continue
        okt = f.switch_target(sbb, okv[0])
        others = [s for s in f.succ(sbb) if s != okt]
        out.append((sbb, okt, others))
    return out


def const_operands(node):
    """All named-constant operands {path: val} mentioned in a statement / terminator / block list."""
    out = []

    def walk(o):
        if isinstance(o, dict):
            if o.get("k") == "const" and o.get("path"):
                out.append(o)
            for v in o.values():
                walk(v)
        elif isinstance(o, list):
            for v in o:
                walk(v)
    walk(node)
    return out


def const_val(ds, path):
    c = ds.consts.get(path)
    if c and c.get("val"):
        return c["val"].get("str", c["val"].get("int"))
    return None


def op_const_path(f, op):
    """Named constant an operand carries (directly or through single-definition copies)."""
    for _ in range(4):
        if op.get("k") == "const":
            return op.get("path")
        l = operand_local(op)
        if l is None:
            return None
        ds = f.defs().get(l, [])
        if len(ds) != 1 or ds[0][1] != "assign" or ds[0][2]["rv"]["rv"] != "use":
            return None
        op = ds[0][2]["rv"]["op"]
    return None


def agg_field_op(st, name):
    """Operand stored into field `name` by an ADT aggregate statement."""
    rv = st["rv"]
    fields = rv.get("fields") or []
    if name in fields:
        return rv["ops"][fields.index(name)]
    return None


def only_plumbing(sl, extra=()):
    return not callee_allow(sl, PLUMBING + list(extra))


def eval_bool_paths(f, target_bb, target_op, atoms, max_states=20000):
    """Exact evaluator for a boolean expression that is computed by control flow and data flow.

    `atoms` maps name -> predicate(kind, node) saying whether an assignment ("assign", stmt) or a call
    ("call", term) defines that atom.  For every valuation of the atoms ALL paths from bb0 to target_bb are
    explored: switches on booleans whose value is known under the valuation follow it (this is how `a && b`,
    `if !a { false } else { b }`, named flags and early exits are evaluated); every other switch (loop
    conditions, matches on unrelated data) forks into each successor that can still reach the target.  The
    operand must have the same known value on every such path.  Returns (names, {valuation-tuple: value}) or
    raises ValueError when the value is not a function of the atoms (fail closed in the caller)."""
    names = sorted(atoms)
    table = {}
    can_reach = {}

    def reaches_target(b):
        if b not in can_reach:
            can_reach[b] = b == target_bb or target_bb in f.reachable(b)
        return can_reach[b]

    for mask in range(1 << len(names)):
        val = {n: bool(mask >> i & 1) for i, n in enumerate(names)}
        results = set()
        seen = set()
        work = [(0, ())]
        while work:
            bb, env_t = work.pop()
            if (bb, env_t) in seen:
                continue
            seen.add((bb, env_t))
            if len(seen) > max_states:
                raise ValueError("too many path states")
            env = dict(env_t)
            blk = f.blocks[bb]
            for st in blk["st"]:
                if st["s"] != "assign" or st["pl"]["p"]:
                    continue
                d = st["pl"]["l"]
                hit = [n for n in names if atoms[n]("assign", st)]
                if hit:
                    env[d] = val[hit[0]]
                    continue
                rv = st["rv"]
                if rv["rv"] == "use":
                    o = rv["op"]
                    if o.get("k") == "const" and o.get("ty") == "bool" and o.get("val") and "int" in o["val"]:
                        env[d] = bool(o["val"]["int"])
                    elif operand_local(o) in env:
                        env[d] = env[operand_local(o)]
                    else:
                        env.pop(d, None)
                elif rv["rv"] == "unop" and rv["op"] == "Not" and operand_local(rv["a"]) in env:
                    env[d] = not env[operand_local(rv["a"])]
                elif rv["rv"] == "binop" and rv["op"] in ("BitAnd", "BitOr", "BitXor", "Eq", "Ne") and \
                        operand_local(rv["a"]) in env and operand_local(rv["b"]) in env:
                    a, b = env[operand_local(rv["a"])], env[operand_local(rv["b"])]
                    env[d] = {"BitAnd": a and b, "BitOr": a or b, "BitXor": a != b, "Eq": a == b, "Ne": a != b}[rv["op"]]
                else:
                    env.pop(d, None)
            if bb == target_bb:
                # statements of the target block have been applied (the value is moved into the aggregate here)
                l = operand_local(target_op)
                if target_op.get("k") == "const" and target_op.get("val") and "int" in target_op["val"]:
                    results.add(bool(target_op["val"]["int"]))
                elif l in env:
                    results.add(env[l])
                else:
                    raise ValueError("value of the operand is not a function of the atoms on some path")
                continue
            t = blk["term"]
            nxt = []
            if t["t"] == "call":
                hit = [n for n in names if atoms[n]("call", t)]
                if not t["dest"]["p"]:
                    if hit:
                        env[t["dest"]["l"]] = val[hit[0]]
                    else:
                        env.pop(t["dest"]["l"], None)
                if "to" in t and t["to"] is not None:
                    nxt = [t["to"]]
            elif t["t"] == "switch":
                l = operand_local(t["discr"])
                if l in env and f.local_ty(l) == "bool":
                    nxt = [f.switch_target(bb, 1 if env[l] else 0)]
                    nxt = [x for x in nxt if x in f.succ(bb)]
                else:
                    nxt = list(f.succ(bb))
            else:
                nxt = list(f.succ(bb))
            et = tuple(sorted(env.items()))
            for s in nxt:
                if reaches_target(s):
                    work.append((s, et))
        if len(results) != 1:
            raise ValueError("under %s the operand takes the values %s" % (val, sorted(results)) if results else "the construction site is unreachable under %s" % val)
        table[tuple(val[n] for n in names)] = results.pop()
    return names, table


# ----------------------------------------------------------------------------- closure-transparent origins
# (generic; candidates for lib.py)
def closure_captures(facts, g):
    """For a closure Fn g: [(parent Fn, aggregate statement that builds g)] — the parent is g's lexical parent or,
    for closures of an inlined helper, the function the helper was inlined into."""
    if g.raw.get("kind") != "Closure":
        return []
    par = facts.F.get(g.raw.get("parent"))
    cands = [par] if par is not None else []
    cands += [h for h in facts.F.values() if g.raw.get("parent") in h.raw.get("inlined", []) and h is not par]
    out = []
    for h in cands:
        reach = h.reachable(0)
        for b, i, st in h.stmts():
            rv = st["rv"]
            if b in reach and rv["rv"] == "agg" and rv.get("agg") in ("closure", "coroutine", "coroutine_closure") and rv.get("def") == g.id:
                out.append((h, st))
    return out


class Origin:
    """Backward slice of a value that looks through closure captures: the slice in the function itself plus,
    for every upvar the slice reads, the slice of the captured operand in the function that builds the closure
    (transitively).  So `|x| .. required ..` inside `.map(..)` and `for x in .. { .. required .. }` have the same origin."""

    def __init__(self, facts, fn, op, stop_at_calls=None, _depth=0):
        self.parts = []          # [(Fn, Slice)]
        self.unresolved = []     # upvar reads whose capture could not be found
        self.item_params = []    # [(closure Fn, param index >= 2)]: closure arguments (iterator items, ..)
        self.root_params = []    # [(Fn, param index)] of non-closure functions
        sl = fn.slice(op, stop_at_calls=stop_at_calls)
        self.parts.append((fn, sl))
        is_closure = fn.raw.get("kind") == "Closure"
        ups = set()
        for a in sl.atoms:
            if a[0] != "param":
                continue
            if not is_closure:
                self.root_params.append((fn, a[1]))
            elif a[1] >= 2:
                self.item_params.append((fn, a[1]))
            else:
                k = [int(e[1:].split(":")[0]) for e in a[2] if e.startswith("f")][:1]
                if k:
                    ups.add(k[0])
                else:
                    self.unresolved.append((fn, a))
        if ups:
            caps = closure_captures(facts, fn)
            if not caps or _depth > 4:
                self.unresolved += [(fn, k) for k in ups]
            for h, st in caps:
                for k in sorted(ups):
                    if k >= len(st["rv"]["ops"]):
                        self.unresolved.append((fn, k))
                        continue
                    sub = Origin(facts, h, st["rv"]["ops"][k], stop_at_calls=stop_at_calls, _depth=_depth + 1)
                    self.parts += sub.parts
                    self.unresolved += sub.unresolved
                    self.item_params += sub.item_params
                    self.root_params += sub.root_params

    def callees(self):
        return [(f, c, bb, t) for f, sl in self.parts for c, bb, t in sl.callees]

    def callee_names(self):
        return sorted(set(c for f, c, bb, t in self.callees()))

    def bad_callees(self, allow=()):
        out = []
        for f, sl in self.parts:
            out += [c for c, bb in callee_allow(sl, PLUMBING + list(allow))]
        return out

    def has_call(self, pattern):
        return any(sl.has_call(pattern) for f, sl in self.parts)

    def reads_field(self, name):
        return any(sl.reads_field(name) for f, sl in self.parts)

    def computed(self):
        """Atoms showing the value is computed rather than copied: literals, unary / binary operators."""
        return sorted(set(a[0] for f, sl in self.parts for a in sl.atoms if a[0] in ("lit", "unop", "binop", "budget")))

    def params_of(self, fn):
        return sorted(set(i for f, i in self.root_params if f is fn))

    def field_bases(self, name):
        """{(fn id, local, projection prefix)} of every place in the slice that selects field `name`:
        the object the field is read from."""
        import json as _json
        out = set()
        for f, sl in self.parts:
            for p in sl.places:
                pl = _json.loads(p)
                for i, e in enumerate(pl["p"]):
                    if isinstance(e, dict) and e.get("n") == name:
                        out.add((f.id, pl["l"], _json.dumps(pl["p"][:i], sort_keys=True)))
        return out

    def is_plain_copy_of_param(self, fn, idx):
        """The value is that parameter of fn and nothing else (no calls, literals or operators on the way)."""
        return not self.unresolved and not self.item_params and not self.callees() and not self.computed() and \
            [(f.id, i) for f, i in set(self.root_params)] == [(fn.id, idx)]


def params_of_type(fn, ty):
    """Parameter locals of fn whose declared type is `ty` (role anchor that survives renaming)."""
    return [i for i in range(1, fn.argc + 1) if fn.local_ty(i) == ty]


def const_bool_operand(fn, op):
    """True / False if the operand is a boolean literal (directly or through let-bound copies), else None."""
    sl = fn.slice(op)
    vals = set()
    for a in sl.atoms:
        if a[0] == "lit" and a[2] == "bool":
            try:
                import json as _json
                vals.add(bool(_json.loads(a[1])["int"]))
            except Exception:
                return None
        else:
            return None
    return vals.pop() if len(vals) == 1 and not sl.callees else None


def direct_element_sources(facts, fn, op):
    """Like lib.element_sources, but only the *nearest* iteration: with nested loops (`for e in endpoints { for p in e.parameters {..} }`)
    the element `p` has the inner iterator as its source, not the outer one.  [(ctx fn, iterator operand, how)]"""
    from .lib import closure_args_of_call
    out = []
    sl = fn.slice(op, stop_at_calls=r"iter::Iterator::next$")
    for c, bb, t in sl.calls(r"iter::Iterator::next$"):
        out.append((fn, t["args"][0], "next"))
    if fn.raw.get("kind") == "Closure" and any(p >= 2 for p in sl.params()):
        for h, st in closure_captures(facts, fn):
            for bb, t in h.live_calls():
                if any(g is fn for g, node in closure_args_of_call(h, t)) and t["args"]:
                    out.append((h, t["args"][0], "adaptor:" + (t.get("callee") or "").split("::")[-1]))
    return out


def field_sources(fn, local, field, adt_pattern=None, _seen=None):
    """Operands that can end up in field `field` of the struct held in `local`, whichever way the struct is put together:
    a struct literal (`S { field: x, .. }`), field assignments on a default value (`s.field = x`), moves of the whole struct.
    Returns (operands, complete) — complete is False when some definition of the struct is opaque (a call result such as
    `Default::default()` with no later assignment of that field is recorded as opaque)."""
    _seen = _seen if _seen is not None else set()
    if local in _seen:
        return [], True
    _seen.add(local)
    ops, complete = [], True
    whole_opaque = False
    wrote_field = False
    for bb, kind, node in fn.defs().get(local, []):
        if kind == "call":
            if not node["dest"]["p"]:
                whole_opaque = True
            continue
        if kind != "assign":
            continue
        pp = node["pl"]["p"]
        rv = node["rv"]
        if pp:
            first = pp[0]
            if isinstance(first, dict) and first.get("n") == field and len(pp) == 1 and rv["rv"] == "use":
                ops.append(rv["op"])
                wrote_field = True
            elif isinstance(first, dict) and first.get("n") == field:
                complete = False
            continue
        if rv["rv"] == "agg" and rv.get("agg") == "adt" and (adt_pattern is None or re.search(adt_pattern, rv.get("adt") or "")):
            o = agg_field_op(node, field)
            if o is not None:
                ops.append(o)
            else:
                whole_opaque = True     # `..base` supplies the field
        elif rv["rv"] == "use" and operand_local(rv["op"]) is not None:
            sub, c = field_sources(fn, operand_local(rv["op"]), field, adt_pattern, _seen)
            ops += sub
            complete = complete and c
        else:
            whole_opaque = True
    if whole_opaque and not wrote_field and not ops:
        complete = False
    return ops, complete


# ----------------------------------------------------------------------------- Result data flow / outcome of a check
# (generic, meant for the normalised view `ctx.dsn`; candidates for lib.py)
FROM_RESIDUAL = r"ops::FromResidual::from_residual$"
SUCC_VARIANTS = ("Ok", "Continue", "Some")
FAIL_VARIANTS = ("Err", "Break", "None")


def payload_place(local, variant):
    """The place `(local as Ok).0` / `(local as Err).0` of a Result held in `local`."""
    return {"l": local, "p": [{"dc": variant, "v": {"Ok": 0, "Err": 1}[variant]}, {"f": 0, "n": "0"}]}


def field_place(fn, pl, adt, name):
    """The place `pl.<name>` for a struct `adt` (field index taken from the ADT table), or None."""
    a = fn.facts.adts.get(adt)
    if not a:
        return None
    for i, fld in enumerate(a["variants"][0]["fields"]):
        if fld["name"] == name:
            return {"l": pl["l"], "p": list(pl["p"]) + [{"f": i, "n": name}]}
    return None


def result_payload_sources(fn, local, variant, transparent=()):
    """Every value the Ok / Err payload of the Result in `local` (0 = the return value) may hold, as lib_c01 Paths: through
    `return`s of inlined helpers, match arms, let-bindings and — for the error — the residual of `?`.  However the function is
    spelled (`x?; Ok(y)`, `match x {..}`, `x.map(..)`, a helper), the set of (payload source) is the same.  Definitions in
    unreachable blocks are ignored; a `?` residual is never the success case."""
    from .lib_c01 import sources
    tr = list(transparent) + ([FROM_RESIDUAL] if variant == "Err" else [])
    reach = fn.reachable(0)
    out = []
    for p in sources(fn, payload_place(local, variant), transparent=tr):
        if variant == "Ok" and p.is_call(FROM_RESIDUAL):
            continue
        if any(b not in reach for _, b in p.hops) or (p.kind() == "call" and p.root[3] not in reach):
            continue
        out.append(p)
    return out


def def_site(fn, local, rv):
    """Block of the assignment whose rvalue is the object `rv` (roots of kind "agg" carry the rvalue, not its site)."""
    for bb, kind, node in fn.defs().get(local, []):
        if kind == "assign" and node["rv"] is rv:
            return bb
    return None


class CheckOutcome:
    """What is known, per CFG position, about the Result returned by one of the calls in blocks `check_bbs` (e.g. a validation):
    `passed(bb)`: every path to bb has seen it return Ok; `failed(bb)`: .. Err.  The knowledge comes from edges of switches on the
    discriminant of that Result or of a value that is Ok / Continue only where the check is already known to have passed (the
    ControlFlow of `?`, a `match` result re-wrapped by a helper, a let-bound copy) — computed as a fixed point, so neither the number
    nor the position of the matches matters — and from `is_ok()` / `is_err()` tests on it (path-sensitive bool facts)."""

    def __init__(self, fn, check_bbs):
        from .lib_c01 import access_path
        self.fn = fn
        self.checks = set(check_bbs)
        self.ok, self.err = set(), set()
        reach = fn.reachable(0)
        defs = fn.defs()

        def root_local(pl):
            p = access_path(fn, pl)
            if p.path or p.kind() not in ("local", "call", "agg"):
                return None
            return p.root[1]

        def implies(l, want_ok, depth=0):
            if depth > 8:
                return False
            ds = [d for d in defs.get(l, []) if d[0] in reach]
            if not ds:
                return False
            for bb, kind, node in ds:
                if kind == "call":
                    if node["dest"]["p"]:
                        return False
                    if bb in self.checks:
                        continue
                    c = node.get("callee") or ""
                    a0 = node["args"][0] if node["args"] else None
                    if re.search(r"ops::Try::branch$", c) and a0 is not None and a0.get("k") in ("copy", "move"):
                        r = root_local(a0["pl"])
                        if r is None or not implies(r, want_ok, depth + 1):
                            return False
                        continue
                    if re.search(FROM_RESIDUAL, c):
                        if not want_ok and not self._dominated(self.err, bb):
                            return False
                        continue
                    return False
                if kind != "assign" or node["pl"]["p"]:
                    return False
                rv = node["rv"]
                if rv["rv"] == "use" and rv["op"].get("k") in ("copy", "move") and not rv["op"]["pl"]["p"]:
                    if not implies(rv["op"]["pl"]["l"], want_ok, depth + 1):
                        return False
                    continue
                if rv["rv"] == "agg" and rv.get("agg") == "adt" and rv.get("variant") in SUCC_VARIANTS + FAIL_VARIANTS:
                    if (rv["variant"] in SUCC_VARIANTS) != want_ok:
                        continue        # built as the other case
                    if not self._dominated(self.ok if want_ok else self.err, bb):
                        return False
                    continue
                return False
            return True

        changed = True
        while changed:
            changed = False
            for sbb, t in fn.switches():
                if sbb not in reach:
                    continue
                info = fn.switch_on(sbb)
                if info["kind"] != "discr":
                    continue
                x = root_local(info["place"])
                if x is None:
                    continue
                tg = {}
                for v, n in info["variants"].items():
                    side = "ok" if n in SUCC_VARIANTS else "err" if n in FAIL_VARIANTS else None
                    if side:
                        tg.setdefault(side, set()).add(fn.switch_target(sbb, v))
                if len(tg.get("ok", ())) != 1 or len(tg.get("err", ())) != 1 or tg["ok"] == tg["err"]:
                    continue
                for side, known in (("ok", self.ok), ("err", self.err)):
                    e = (sbb, next(iter(tg[side])))
                    if e not in known and implies(x, side == "ok"):
                        known.add(e)
                        changed = True
        # boolean tests of the check's result
        self.ok_atoms, self.err_atoms = [], []
        for bb, t in fn.live_calls(r"result::Result::<T, E>::(is_ok|is_err)$"):
            a0 = t["args"][0]
            if a0.get("k") not in ("copy", "move"):
                continue
            p = access_path(fn, a0["pl"])
            if p.kind() == "call" and not p.path and p.root[3] in self.checks:
                (self.ok_atoms if t["callee"].endswith("is_ok") else self.err_atoms).append(("call", bb))

    def _dominated(self, edges, bb):
        return any(self.fn.edge_dominates(s, t, bb) for s, t in edges)

    def passed(self, bb):
        if self._dominated(self.ok, bb):
            return True
        return bool(self.ok_atoms or self.err_atoms) and self.fn.guarded_by(bb, atoms_true=self.ok_atoms, atoms_false=self.err_atoms)[0]

    def failed(self, bb):
        if self._dominated(self.err, bb):
            return True
        return bool(self.ok_atoms or self.err_atoms) and self.fn.guarded_by(bb, atoms_true=self.err_atoms, atoms_false=self.ok_atoms)[0]

    def failure_reaches(self, bb):
        """Can control get from a position where the check is known to have failed to bb?"""
        return any(bb == t or bb in self.fn.reachable(t) for s, t in self.err)


# ----------------------------------------------------------------------------- value tracing through conversions, iterator pipelines and closures
# (generic, meant for the normalised view; candidate for lib.py)
ELEM = {"elem": True}       # pseudo-projection: "an element of" the collection / iterator the place holds
TRACE_PLUMBING = [r"clone::Clone::clone$", r"ops::Deref::deref$", r"ops::DerefMut::deref_mut$", r"convert::AsRef::as_ref$", r"convert::AsMut::as_mut$",
                  r"borrow::Borrow::borrow$", r"borrow::BorrowMut::borrow_mut$", r"ops::Try::branch$", r"hint::must_use$"]
# calls that hand on the elements of their receiver unchanged (the closure of filter / inspect / .. only selects or observes)
ITER_SAME_ELEMENTS = [r"iter::IntoIterator::into_iter$", r"iter::Iterator::(by_ref|peekable|fuse|skip|take|filter|inspect|skip_while|take_while|step_by)$",
                      r"::iter$", r"::iter_mut$", r"::into_iter$", r"::drain$", r"Vec::<T, A>::as_slice$", r"Vec::<T, A>::as_mut_slice$"]
# adaptors that call their closure with one element of the receiver as its only argument
ELEMENT_ADAPTORS = r"iter::Iterator::(map|for_each|try_for_each|filter|filter_map|find|find_map|any|all|position|inspect|flat_map|skip_while|take_while|map_while|partition|max_by_key|min_by_key)$"


def _pstr(e):
    if e == ELEM or (isinstance(e, dict) and e.get("elem")):
        return "[elem]"
    if isinstance(e, dict) and "f" in e:
        return str(e.get("n") if e.get("n") not in (None, "") else e["f"])
    if isinstance(e, dict) and "dc" in e:
        n = e["dc"] if e["dc"] is not None else e.get("v")
        return "+" if n in SUCC_VARIANTS else "-" if n in FAIL_VARIANTS else "as %s" % n
    if isinstance(e, dict) and "idx" in e:
        return "[i]"
    return "[?]"


class Term:
    """Where a traced value finally comes from: kind 'param' (of a non-closure function, or an unresolved closure parameter), 'call'
    (result of a call the trace does not look through), 'const', 'agg' (a whole aggregate built in the function), 'local' (computed:
    operators, partial writes, ..) or 'budget'.  `path` is what is read from that root ("+" = Ok/Some/Continue payload, "-" = the
    failure payload, "[elem]" = an element of it, field names / tuple indices); `trail` lists the conversions and adaptors passed."""

    def __init__(self, fn, kind, local, proj, node, bb, trail):
        self.fn, self.kind, self.local, self.proj, self.node, self.bb, self.trail = fn, kind, local, proj, node, bb, list(trail)
        self.path = [_pstr(e) for e in proj]

    @property
    def callee(self):
        return (self.node.get("callee") or "<indirect>") if self.kind == "call" else None

    def is_call(self, pattern):
        return self.kind == "call" and (re.search(pattern, self.callee) is not None or bool(self.node.get("resolved") and re.search(pattern, self.node["resolved"])))

    def conversions(self):
        return [c for c, how in self.trail if how == "convert"]

    def __repr__(self):
        head = {"param": "param#%s" % self.local, "call": "%s(..)" % (self.callee or "").split("::")[-1], "const": "const", "agg": "aggregate",
                "local": "computed local#%s" % self.local, "budget": "<budget>"}[self.kind]
        s = head + "".join("." + p for p in self.path)
        conv = [c.split("::")[-1] for c in self.conversions()]
        return s + (" via " + ",".join(conv) if conv else "")


def _adaptor_takers(facts, clo):
    """[(parent Fn, bb, call term)] of the calls that are handed the closure `clo` (in its lexical parent or, for a closure of an
    inlined helper, in the function the helper was inlined into)."""
    from .lib import closure_args_of_call
    pid = clo.raw.get("parent")
    pars = [facts.F[pid]] if pid in facts.F else []
    pars += [g for g in facts.F.values() if pid in g.raw.get("inlined", []) and g not in pars]
    out = []
    for par in pars:
        for bb, t in par.live_calls():
            if any(h is clo for h, node in closure_args_of_call(par, t)):
                out.append((par, bb, t))
    return out


def trace_value(facts, fn, x, convert=(), plumbing=(), limit=600):
    """Backward, variant- and field-sensitive trace of an operand / place to the values it can hold: [Term].

    Unlike a slice it follows only the *value*: through copies, borrows, let-bindings, multi-definition locals (each definition;
    a definition that builds another enum variant than the one read is skipped, so the Ok payload of `x?` never reaches the error
    constructors of `x`), projections of aggregates built in the function, the residual of `?`, value-preserving calls (`plumbing`
    + TRACE_PLUMBING), *conversions* (`convert`: the result — or its Ok/Some payload — is a function of the first argument as a whole;
    recorded in Term.trail), closure captures (into the function that builds the closure), and iterator pipelines: the item of
    `Iterator::next`, the item parameter of an adaptor closure, `.map(closure)` stages (into the closure's return value),
    `.collect()` into a collection or a `Result<collection, _>`, `into_iter()` and friends — an element is written as the
    pseudo-projection [elem], so `for (k, v) in m`, `m.into_iter().for_each(|(k, v)| ..)` and
    `m.into_iter().map(|(k, v)| ..).collect::<Result<Vec<_>, _>>()?.into_iter()..` all end in `m.[elem].0` / `m.[elem].1`."""
    from .lib import closure_args_of_call
    from .lib_c01 import captured_operand
    rx_conv = [re.compile(p) for p in convert]
    rx_pl = [re.compile(p) for p in list(plumbing) + TRACE_PLUMBING]
    rx_same = [re.compile(p) for p in ITER_SAME_ELEMENTS]

    def m(rxs, t):
        c, r = t.get("callee") or "", t.get("resolved") or ""
        return any(rx.search(c) or (r and rx.search(r)) for rx in rxs)

    def strip(p):
        return [e for e in p if e != "*"]

    def is_dc(e, cls=None):
        return isinstance(e, dict) and "dc" in e and (cls is None or e["dc"] in cls)

    def is_f(e):
        return isinstance(e, dict) and "f" in e

    def is_elem(e):
        return isinstance(e, dict) and e.get("elem")

    if "k" in x:
        if x["k"] == "const":
            return [Term(fn, "const", None, [], x, None, [])]
        pl = x["pl"]
    else:
        pl = x
    out, seen, n = [], set(), 0
    work = [(fn, pl["l"], strip(pl["p"]), ())]

    def push_op(g, op, rest, trail, l):
        if op.get("k") in ("copy", "move"):
            work.append((g, op["pl"]["l"], strip(op["pl"]["p"]) + rest, trail))
        else:
            out.append(Term(g, "const", l, rest, op, None, trail))

    while work:
        g, l, proj, trail = work.pop()
        key = (g.id, l, json.dumps(proj, sort_keys=True))
        if key in seen:
            continue
        seen.add(key)
        n += 1
        if n > limit:
            out.append(Term(g, "budget", l, proj, None, None, trail))
            continue
        if 1 <= l <= g.argc:
            if g.raw.get("kind") == "Closure":
                if l == 1 and proj and is_f(proj[0]):
                    cap = captured_operand(facts, g, proj[0]["f"])
                    if cap is not None:
                        push_op(cap[0], cap[1], proj[1:], trail, l)
                        continue
                elif l == 2 and g.argc == 2:
                    takers = [(par, bb, t) for par, bb, t in _adaptor_takers(facts, g) if re.search(ELEMENT_ADAPTORS, t.get("callee") or "") and t["args"]]
                    if takers:
                        for par, bb, t in takers:
                            push_op(par, t["args"][0], [ELEM] + proj, trail + ((t["callee"], "adaptor"),), l)
                        continue
            out.append(Term(g, "param", l, proj, None, None, trail))
            continue
        reach = g.reachable(0)
        ds = [d for d in g.defs().get(l, []) if d[0] in reach]
        if not ds or not all((k == "assign" and not nd["pl"]["p"]) or (k == "call" and not nd["dest"]["p"]) for _, k, nd in ds):
            out.append(Term(g, "local", l, proj, None, None, trail))
            continue
        for bb, kind, node in ds:
            if kind == "assign":
                rv = node["rv"]
                k = rv["rv"]
                if k in ("use", "cast"):
                    if k == "cast" and rv["op"].get("k") in ("copy", "move") and not any(w in rv.get("kind", "") for w in ("Unsize", "Transmute", "PtrToPtr")):
                        out.append(Term(g, "local", l, proj, rv, bb, trail))
                    else:
                        push_op(g, rv["op"], proj, trail, l)
                elif k in ("ref", "copyderef", "rawptr"):
                    work.append((g, rv["pl"]["l"], strip(rv["pl"]["p"]) + proj, trail))
                elif k == "agg" and rv.get("agg") in ("tuple", "adt", "closure", "coroutine"):
                    is_struct = rv.get("agg") != "adt" or g.facts.adts.get(rv.get("adt"), {}).get("kind") == "struct"
                    if is_struct and proj and is_f(proj[0]) and proj[0]["f"] < len(rv["ops"]):
                        push_op(g, rv["ops"][proj[0]["f"]], proj[1:], trail, l)
                    elif not is_struct and proj and is_dc(proj[0]):
                        want, have = proj[0]["dc"], rv.get("variant")
                        same = want == have or (want in SUCC_VARIANTS and have in SUCC_VARIANTS) or (want in FAIL_VARIANTS and have in FAIL_VARIANTS)
                        if not same:
                            continue        # a value built as one variant is never read as another
                        if len(proj) > 1 and is_f(proj[1]) and proj[1]["f"] < len(rv["ops"]):
                            push_op(g, rv["ops"][proj[1]["f"]], proj[2:], trail, l)
                        else:
                            out.append(Term(g, "agg", l, proj, rv, bb, trail))
                    else:
                        out.append(Term(g, "agg", l, proj, rv, bb, trail))
                else:
                    out.append(Term(g, "local", l, proj, rv, bb, trail))
                continue
            if kind != "call":
                out.append(Term(g, "local", l, proj, None, bb, trail))
                continue
            t = node
            c = t.get("callee") or ""
            a0 = t["args"][0] if t["args"] else None
            if re.search(FROM_RESIDUAL, c) and a0 is not None:
                if proj and is_dc(proj[0], SUCC_VARIANTS):
                    continue                # the residual of `?` is never the success case
                push_op(g, a0, proj, trail, l)
            elif a0 is not None and (m(rx_pl, t) or m(rx_same, t)):
                push_op(g, a0, proj, trail, l)
            elif re.search(r"iter::Iterator::next$|iter::DoubleEndedIterator::next_back$", c) and a0 is not None and len(proj) >= 2 and is_dc(proj[0], ("Some",)) and is_f(proj[1]):
                push_op(g, a0, [ELEM] + proj[2:], trail + ((c, "adaptor"),), l)
            elif re.search(r"iter::Iterator::collect$", c) and a0 is not None and proj and is_elem(proj[0]):
                push_op(g, a0, proj, trail + ((c, "adaptor"),), l)
            elif re.search(r"iter::Iterator::collect$", c) and a0 is not None and len(proj) >= 3 and is_dc(proj[0], SUCC_VARIANTS) and is_f(proj[1]) and is_elem(proj[2]):
                # collect::<Result<C, E>>() / ::<Option<C>>(): an element of the Ok collection is the Ok payload of an item
                push_op(g, a0, [ELEM, proj[0], proj[1]] + proj[3:], trail + ((c, "adaptor"),), l)
            elif re.search(r"iter::Iterator::(map|filter_map|map_while)$", c) and a0 is not None and proj and is_elem(proj[0]):
                stages = [h for h, nd in closure_args_of_call(g, t)]
                if not stages:
                    out.append(Term(g, "call", l, proj, t, bb, trail))
                extra = [] if c.endswith("::map") else [{"dc": "Some", "v": 1}, {"f": 0, "n": "0"}]
                for h in stages:
                    work.append((h, 0, extra + proj[1:], trail + ((c, "adaptor"),)))
            elif a0 is not None and m(rx_conv, t) and (not proj or (len(proj) == 2 and is_dc(proj[0], SUCC_VARIANTS) and is_f(proj[1]))):
                push_op(g, a0, [], trail + ((c, "convert"),), l)
            else:
                out.append(Term(g, "call", l, proj, t, bb, trail))
    return out
