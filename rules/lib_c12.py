"""Helpers shared by c12.py and c07.py: the typed-response family (HttpCodedResponse impls, their
evaluated STATUS_CODE, the `From<X> for HttpHandlerResult` conversions) and small CFG utilities."""
import re

from .lib import PLUMBING, callee_allow, operand_local

STATUS_PATH = r"^handler::HttpCodedResponse::STATUS_CODE$"
TO_STRING = [r"string::ToString::to_string$", r"borrow::ToOwned::to_owned$", r"string::String::from$", r"<impl .*String>::from$"]


def norm_ty(s):
    """`handler::HttpResponseOk<T/#0>` -> `handler::HttpResponseOk<T>` (generic parameter indices dropped)."""
    return re.sub(r"/#\d+", "", s or "")


def coded_impls(ds):
    """[{self, impl, items, status (int|None)}] for every `impl HttpCodedResponse for X` in the crate."""
    out = []
    for i in ds.impls:
        if not i["trait"].endswith("handler::HttpCodedResponse"):
            continue
        cid = None
        for it in i["items"]:
            if it["name"] == "STATUS_CODE" and it["kind"] == "Const":
                cid = it["id"]
        val = None
        for c in ds.const_list:
            if cid is not None and c["id"] == cid and c.get("val") and "int" in c["val"]:
                val = c["val"]["int"]
        out.append({"self": norm_ty(i["self"]), "impl": i["impl"], "items": i["items"], "status": val, "const": cid})
    return out


def from_impls(ds):
    """{X: Fn} for every `impl From<X> for Result<Response<Body>, HttpError>` whose X is in module handler."""
    out = {}
    for i in ds.impls:
        if i["trait"] != "std::convert::From" or "http::Response<body::Body>, error::HttpError>" not in i["self"]:
            continue
        m = re.search(r"impl std::convert::From<(.*)> for std::result::Result<", i["impl"])
        if not m:
            continue
        for it in i["items"]:
            if it["kind"] == "Fn" and it["name"] == "from":
                out[norm_ty(m.group(1))] = ds.fn(it["id"])
    return out


def self_of_call(t):
    """`<X as Trait>::method` -> X for a trait-method call term (from callee_args)."""
    ca = t.get("callee_args") or ""
    m = re.match(r"^<(.*) as [^<>]*(?:<.*>)?>::\w+(?:::<.*>)?$", ca)
    if m:
        return norm_ty(m.group(1))
    # inherent / default method named through the type: `X::method`
    return None


def ret_ok_sites(f):
    """Reachable `_0 = Result::Ok(..)` aggregate sites."""
    reach = f.reachable(0)
    return [(b, st) for b, i, st in f.aggregates(r"^std::result::Result$", "Ok") if st["pl"]["l"] == 0 and not st["pl"]["p"] and b in reach]


def accept_edges(f, call_pattern):
    """Switches on the discriminant of a value derived from a call matching call_pattern
    (directly, through map_err / Try::branch, ...).  Returns [(switch_bb, ok_target, [other targets])] where
    ok_target is the edge taken for the Ok / Continue / Some variant."""
    out = []
    reach = f.reachable(0)
    for sbb, t in f.switches():
        if sbb not in reach:
            continue
        info = f.switch_on(sbb)
        if info["kind"] != "discr":
            continue
        sl = f.slice(info["place"])
        if not sl.has_call(call_pattern):
            continue
        okv = [v for v, n in info["variants"].items() if n in ("Ok", "Continue", "Some")]
        if len(okv) != 1:
            continue
        okt = f.switch_target(sbb, okv[0])
        others = [s for s in f.succ(sbb) if s != okt]
        out.append((sbb, okt, others))
    return out


def const_operands(node):
    """All named-constant operands {path: val} mentioned in a statement / terminator / block list."""
    out = []

    def walk(o):
        if isinstance(o, dict):
            if o.get("k") == "const" and o.get("path"):
                out.append(o)
            for v in o.values():
                walk(v)
        elif isinstance(o, list):
            for v in o:
                walk(v)
    walk(node)
    return out


def const_val(ds, path):
    c = ds.consts.get(path)
    if c and c.get("val"):
        return c["val"].get("str", c["val"].get("int"))
    return None


def op_const_path(f, op):
    """Named constant an operand carries (directly or through single-definition copies)."""
    for _ in range(4):
        if op.get("k") == "const":
            return op.get("path")
        l = operand_local(op)
        if l is None:
            return None
        ds = f.defs().get(l, [])
        if len(ds) != 1 or ds[0][1] != "assign" or ds[0][2]["rv"]["rv"] != "use":
            return None
        op = ds[0][2]["rv"]["op"]
    return None


def agg_field_op(st, name):
    """Operand stored into field `name` by an ADT aggregate statement."""
    rv = st["rv"]
    fields = rv.get("fields") or []
    if name in fields:
        return rv["ops"][fields.index(name)]
    return None


def only_plumbing(sl, extra=()):
    return not callee_allow(sl, PLUMBING + list(extra))


def eval_bool_paths(f, target_bb, target_op, atoms, max_states=20000):
    """Exact evaluator for a boolean expression that is computed by control flow and data flow.

    `atoms` maps name -> predicate(kind, node) saying whether an assignment ("assign", stmt) or a call
    ("call", term) defines that atom.  For every valuation of the atoms ALL paths from bb0 to target_bb are
    explored: switches on booleans whose value is known under the valuation follow it (this is how `a && b`,
    `if !a { false } else { b }`, named flags and early exits are evaluated); every other switch (loop
    conditions, matches on unrelated data) forks into each successor that can still reach the target.  The
    operand must have the same known value on every such path.  Returns (names, {valuation-tuple: value}) or
    raises ValueError when the value is not a function of the atoms (fail closed in the caller)."""
    names = sorted(atoms)
    table = {}
    can_reach = {}

    def reaches_target(b):
        if b not in can_reach:
            can_reach[b] = b == target_bb or target_bb in f.reachable(b)
        return can_reach[b]

    for mask in range(1 << len(names)):
        val = {n: bool(mask >> i & 1) for i, n in enumerate(names)}
        results = set()
        seen = set()
        work = [(0, ())]
        while work:
            bb, env_t = work.pop()
            if (bb, env_t) in seen:
                continue
            seen.add((bb, env_t))
            if len(seen) > max_states:
                raise ValueError("too many path states")
            env = dict(env_t)
            blk = f.blocks[bb]
            for st in blk["st"]:
                if st["s"] != "assign" or st["pl"]["p"]:
                    continue
                d = st["pl"]["l"]
                hit = [n for n in names if atoms[n]("assign", st)]
                if hit:
                    env[d] = val[hit[0]]
                    continue
                rv = st["rv"]
                if rv["rv"] == "use":
                    o = rv["op"]
                    if o.get("k") == "const" and o.get("ty") == "bool" and o.get("val") and "int" in o["val"]:
                        env[d] = bool(o["val"]["int"])
                    elif operand_local(o) in env:
                        env[d] = env[operand_local(o)]
                    else:
                        env.pop(d, None)
                elif rv["rv"] == "unop" and rv["op"] == "Not" and operand_local(rv["a"]) in env:
                    env[d] = not env[operand_local(rv["a"])]
                elif rv["rv"] == "binop" and rv["op"] in ("BitAnd", "BitOr", "BitXor", "Eq", "Ne") and \
                        operand_local(rv["a"]) in env and operand_local(rv["b"]) in env:
                    a, b = env[operand_local(rv["a"])], env[operand_local(rv["b"])]
                    env[d] = {"BitAnd": a and b, "BitOr": a or b, "BitXor": a != b, "Eq": a == b, "Ne": a != b}[rv["op"]]
                else:
                    env.pop(d, None)
            if bb == target_bb:
                # statements of the target block have been applied (the value is moved into the aggregate here)
                l = operand_local(target_op)
                if target_op.get("k") == "const" and target_op.get("val") and "int" in target_op["val"]:
                    results.add(bool(target_op["val"]["int"]))
                elif l in env:
                    results.add(env[l])
                else:
                    raise ValueError("value of the operand is not a function of the atoms on some path")
                continue
            t = blk["term"]
            nxt = []
            if t["t"] == "call":
                hit = [n for n in names if atoms[n]("call", t)]
                if not t["dest"]["p"]:
                    if hit:
                        env[t["dest"]["l"]] = val[hit[0]]
                    else:
                        env.pop(t["dest"]["l"], None)
                if "to" in t and t["to"] is not None:
                    nxt = [t["to"]]
            elif t["t"] == "switch":
                l = operand_local(t["discr"])
                if l in env and f.local_ty(l) == "bool":
                    nxt = [f.switch_target(bb, 1 if env[l] else 0)]
                    nxt = [x for x in nxt if x in f.succ(bb)]
                else:
                    nxt = list(f.succ(bb))
            else:
                nxt = list(f.succ(bb))
            et = tuple(sorted(env.items()))
            for s in nxt:
                if reaches_target(s):
                    work.append((s, et))
        if len(results) != 1:
            raise ValueError("under %s the operand takes the values %s" % (val, sorted(results)) if results else "the construction site is unreachable under %s" % val)
        table[tuple(val[n] for n in names)] = results.pop()
    return names, table


# ----------------------------------------------------------------------------- closure-transparent origins
# (generic; candidates for lib.py)
def closure_captures(facts, g):
    """For a closure Fn g: [(parent Fn, aggregate statement that builds g)] — the parent is g's lexical parent or,
    for closures of an inlined helper, the function the helper was inlined into."""
    if g.raw.get("kind") != "Closure":
        return []
    par = facts.F.get(g.raw.get("parent"))
    cands = [par] if par is not None else []
    cands += [h for h in facts.F.values() if g.raw.get("parent") in h.raw.get("inlined", []) and h is not par]
    out = []
    for h in cands:
        reach = h.reachable(0)
        for b, i, st in h.stmts():
            rv = st["rv"]
            if b in reach and rv["rv"] == "agg" and rv.get("agg") in ("closure", "coroutine", "coroutine_closure") and rv.get("def") == g.id:
                out.append((h, st))
    return out


class Origin:
    """Backward slice of a value that looks through closure captures: the slice in the function itself plus,
    for every upvar the slice reads, the slice of the captured operand in the function that builds the closure
    (transitively).  So `|x| .. required ..` inside `.map(..)` and `for x in .. { .. required .. }` have the same origin."""

    def __init__(self, facts, fn, op, stop_at_calls=None, _depth=0):
        self.parts = []          # [(Fn, Slice)]
        self.unresolved = []     # upvar reads whose capture could not be found
        self.item_params = []    # [(closure Fn, param index >= 2)]: closure arguments (iterator items, ..)
        self.root_params = []    # [(Fn, param index)] of non-closure functions
        sl = fn.slice(op, stop_at_calls=stop_at_calls)
        self.parts.append((fn, sl))
        is_closure = fn.raw.get("kind") == "Closure"
        ups = set()
        for a in sl.atoms:
            if a[0] != "param":
                continue
            if not is_closure:
                self.root_params.append((fn, a[1]))
            elif a[1] >= 2:
                self.item_params.append((fn, a[1]))
            else:
                k = [int(e[1:].split(":")[0]) for e in a[2] if e.startswith("f")][:1]
                if k:
                    ups.add(k[0])
                else:
                    self.unresolved.append((fn, a))
        if ups:
            caps = closure_captures(facts, fn)
            if not caps or _depth > 4:
                self.unresolved += [(fn, k) for k in ups]
            for h, st in caps:
                for k in sorted(ups):
                    if k >= len(st["rv"]["ops"]):
                        self.unresolved.append((fn, k))
                        continue
                    sub = Origin(facts, h, st["rv"]["ops"][k], stop_at_calls=stop_at_calls, _depth=_depth + 1)
                    self.parts += sub.parts
                    self.unresolved += sub.unresolved
                    self.item_params += sub.item_params
                    self.root_params += sub.root_params

    def callees(self):
        return [(f, c, bb, t) for f, sl in self.parts for c, bb, t in sl.callees]

    def callee_names(self):
        return sorted(set(c for f, c, bb, t in self.callees()))

    def bad_callees(self, allow=()):
        out = []
        for f, sl in self.parts:
            out += [c for c, bb in callee_allow(sl, PLUMBING + list(allow))]
        return out

    def has_call(self, pattern):
        return any(sl.has_call(pattern) for f, sl in self.parts)

    def reads_field(self, name):
        return any(sl.reads_field(name) for f, sl in self.parts)

    def computed(self):
        """Atoms showing the value is computed rather than copied: literals, unary / binary operators."""
        return sorted(set(a[0] for f, sl in self.parts for a in sl.atoms if a[0] in ("lit", "unop", "binop", "budget")))

    def params_of(self, fn):
        return sorted(set(i for f, i in self.root_params if f is fn))

    def field_bases(self, name):
        """{(fn id, local, projection prefix)} of every place in the slice that selects field `name`:
        the object the field is read from."""
        import json as _json
        out = set()
        for f, sl in self.parts:
            for p in sl.places:
                pl = _json.loads(p)
                for i, e in enumerate(pl["p"]):
                    if isinstance(e, dict) and e.get("n") == name:
                        out.add((f.id, pl["l"], _json.dumps(pl["p"][:i], sort_keys=True)))
        return out

    def is_plain_copy_of_param(self, fn, idx):
        """The value is that parameter of fn and nothing else (no calls, literals or operators on the way)."""
        return not self.unresolved and not self.item_params and not self.callees() and not self.computed() and \
            [(f.id, i) for f, i in set(self.root_params)] == [(fn.id, idx)]


def params_of_type(fn, ty):
    """Parameter locals of fn whose declared type is `ty` (role anchor that survives renaming)."""
    return [i for i in range(1, fn.argc + 1) if fn.local_ty(i) == ty]


def const_bool_operand(fn, op):
    """True / False if the operand is a boolean literal (directly or through let-bound copies), else None."""
    sl = fn.slice(op)
    vals = set()
    for a in sl.atoms:
        if a[0] == "lit" and a[2] == "bool":
            try:
                import json as _json
                vals.add(bool(_json.loads(a[1])["int"]))
            except Exception:
                return None
        else:
            return None
    return vals.pop() if len(vals) == 1 and not sl.callees else None


def direct_element_sources(facts, fn, op):
    """Like lib.element_sources, but only the *nearest* iteration: with nested loops (`for e in endpoints { for p in e.parameters {..} }`)
    the element `p` has the inner iterator as its source, not the outer one.  [(ctx fn, iterator operand, how)]"""
    from .lib import closure_args_of_call
    out = []
    sl = fn.slice(op, stop_at_calls=r"iter::Iterator::next$")
    for c, bb, t in sl.calls(r"iter::Iterator::next$"):
        out.append((fn, t["args"][0], "next"))
    if fn.raw.get("kind") == "Closure" and any(p >= 2 for p in sl.params()):
        for h, st in closure_captures(facts, fn):
            for bb, t in h.live_calls():
                if any(g is fn for g, node in closure_args_of_call(h, t)) and t["args"]:
                    out.append((h, t["args"][0], "adaptor:" + (t.get("callee") or "").split("::")[-1]))
    return out


def field_sources(fn, local, field, adt_pattern=None, _seen=None):
    """Operands that can end up in field `field` of the struct held in `local`, whichever way the struct is put together:
    a struct literal (`S { field: x, .. }`), field assignments on a default value (`s.field = x`), moves of the whole struct.
    Returns (operands, complete) — complete is False when some definition of the struct is opaque (a call result such as
    `Default::default()` with no later assignment of that field is recorded as opaque)."""
    _seen = _seen if _seen is not None else set()
    if local in _seen:
        return [], True
    _seen.add(local)
    ops, complete = [], True
    whole_opaque = False
    wrote_field = False
    for bb, kind, node in fn.defs().get(local, []):
        if kind == "call":
            if not node["dest"]["p"]:
                whole_opaque = True
            continue
        if kind != "assign":
            continue
        pp = node["pl"]["p"]
        rv = node["rv"]
        if pp:
            first = pp[0]
            if isinstance(first, dict) and first.get("n") == field and len(pp) == 1 and rv["rv"] == "use":
                ops.append(rv["op"])
                wrote_field = True
            elif isinstance(first, dict) and first.get("n") == field:
                complete = False
            continue
        if rv["rv"] == "agg" and rv.get("agg") == "adt" and (adt_pattern is None or re.search(adt_pattern, rv.get("adt") or "")):
            o = agg_field_op(node, field)
            if o is not None:
                ops.append(o)
            else:
                whole_opaque = True     # `..base` supplies the field
        elif rv["rv"] == "use" and operand_local(rv["op"]) is not None:
            sub, c = field_sources(fn, operand_local(rv["op"]), field, adt_pattern, _seen)
            ops += sub
            complete = complete and c
        else:
            whole_opaque = True
    if whole_opaque and not wrote_field and not ops:
        complete = False
    return ops, complete
