"""Helpers shared by c12.py and c07.py: the typed-response family (HttpCodedResponse impls, their
evaluated STATUS_CODE, the `From<X> for HttpHandlerResult` conversions) and small CFG utilities."""
import re

from .lib import PLUMBING, callee_allow, operand_local

STATUS_PATH = r"^handler::HttpCodedResponse::STATUS_CODE$"
TO_STRING = [r"string::ToString::to_string$", r"borrow::ToOwned::to_owned$", r"string::String::from$", r"<impl .*String>::from$"]


def norm_ty(s):
    """`handler::HttpResponseOk<T/#0>` -> `handler::HttpResponseOk<T>` (generic parameter indices dropped)."""
    return re.sub(r"/#\d+", "", s or "")


def coded_impls(ds):
    """[{self, impl, items, status (int|None)}] for every `impl HttpCodedResponse for X` in the crate."""
    out = []
    for i in ds.impls:
        if not i["trait"].endswith("handler::HttpCodedResponse"):
            continue
        cid = None
        for it in i["items"]:
            if it["name"] == "STATUS_CODE" and it["kind"] == "Const":
                cid = it["id"]
        val = None
        for c in ds.const_list:
            if cid is not None and c["id"] == cid and c.get("val") and "int" in c["val"]:
                val = c["val"]["int"]
        out.append({"self": norm_ty(i["self"]), "impl": i["impl"], "items": i["items"], "status": val, "const": cid})
    return out


def from_impls(ds):
    """{X: Fn} for every `impl From<X> for Result<Response<Body>, HttpError>` whose X is in module handler."""
    out = {}
    for i in ds.impls:
        if i["trait"] != "std::convert::From" or "http::Response<body::Body>, error::HttpError>" not in i["self"]:
            continue
        m = re.search(r"impl std::convert::From<(.*)> for std::result::Result<", i["impl"])
        if not m:
            continue
        for it in i["items"]:
            if it["kind"] == "Fn" and it["name"] == "from":
                out[norm_ty(m.group(1))] = ds.fn(it["id"])
    return out


def self_of_call(t):
    """`<X as Trait>::method` -> X for a trait-method call term (from callee_args)."""
    ca = t.get("callee_args") or ""
    m = re.match(r"^<(.*) as [^<>]*(?:<.*>)?>::\w+(?:::<.*>)?$", ca)
    if m:
        return norm_ty(m.group(1))
    # inherent / default method named through the type: `X::method`
    return None


def ret_ok_sites(f):
    """Reachable `_0 = Result::Ok(..)` aggregate sites."""
    reach = f.reachable(0)
    return [(b, st) for b, i, st in f.aggregates(r"^std::result::Result$", "Ok") if st["pl"]["l"] == 0 and not st["pl"]["p"] and b in reach]


def accept_edges(f, call_pattern):
    """Switches on the discriminant of a value derived from a call matching call_pattern
    (directly, through map_err / Try::branch, ...).  Returns [(switch_bb, ok_target, [other targets])] where
    ok_target is the edge taken for the Ok / Continue / Some variant."""
    out = []
    reach = f.reachable(0)
    for sbb, t in f.switches():
        if sbb not in reach:
            continue
        info = f.switch_on(sbb)
        if info["kind"] != "discr":
            continue
        sl = f.slice(info["place"])
        if not sl.has_call(call_pattern):
            continue
        okv = [v for v, n in info["variants"].items() if n in ("Ok", "Continue", "Some")]
        if len(okv) != 1:
            continue
        okt = f.switch_target(sbb, okv[0])
        others = [s for s in f.succ(sbb) if s != okt]
        out.append((sbb, okt, others))
    return out


def const_operands(node):
    """All named-constant operands {path: val} mentioned in a statement / terminator / block list."""
    out = []

    def walk(o):
        if isinstance(o, dict):
            if o.get("k") == "const" and o.get("path"):
                out.append(o)
            for v in o.values():
                walk(v)
        elif isinstance(o, list):
            for v in o:
                walk(v)
    walk(node)
    return out


def const_val(ds, path):
    c = ds.consts.get(path)
    if c and c.get("val"):
        return c["val"].get("str", c["val"].get("int"))
    return None


def op_const_path(f, op):
    """Named constant an operand carries (directly or through single-definition copies)."""
    for _ in range(4):
        if op.get("k") == "const":
            return op.get("path")
        l = operand_local(op)
        if l is None:
            return None
        ds = f.defs().get(l, [])
        if len(ds) != 1 or ds[0][1] != "assign" or ds[0][2]["rv"]["rv"] != "use":
            return None
        op = ds[0][2]["rv"]["op"]
    return None


def agg_field_op(st, name):
    """Operand stored into field `name` by an ADT aggregate statement."""
    rv = st["rv"]
    fields = rv.get("fields") or []
    if name in fields:
        return rv["ops"][fields.index(name)]
    return None


def only_plumbing(sl, extra=()):
    return not callee_allow(sl, PLUMBING + list(extra))


def eval_bool_paths(f, target_bb, target_op, atoms):
    """Tiny exact evaluator for a boolean expression that is computed by control flow.

    atoms: {name: ("place", place_json_prefix_fn) | ("call", regex)} -- here given as a function
    `classify(kind, node)` is avoided; instead `atoms` maps name -> predicate(kind, node) that says whether an
    assignment / call defines that atom.  For every valuation of the atoms the CFG is walked from bb0 to
    target_bb, switches on known booleans follow the valuation; returns {valuation-tuple: value} or raises
    ValueError when the walk meets control flow it cannot decide (fail closed in the caller)."""
    names = sorted(atoms)
    table = {}
    for mask in range(1 << len(names)):
        val = {n: bool(mask >> i & 1) for i, n in enumerate(names)}
        env = {}
        bb = 0
        steps = 0
        while True:
            steps += 1
            if steps > 400:
                raise ValueError("path too long")
            blk = f.blocks[bb]
            for st in blk["st"]:
                if st["s"] != "assign" or st["pl"]["p"]:
                    continue
                d = st["pl"]["l"]
                hit = [n for n in names if atoms[n]("assign", st)]
                if hit:
                    env[d] = val[hit[0]]
                    continue
                rv = st["rv"]
                if rv["rv"] == "use":
                    o = rv["op"]
                    if o.get("k") == "const" and o.get("ty") == "bool" and o.get("val") and "int" in o["val"]:
                        env[d] = bool(o["val"]["int"])
                    elif operand_local(o) in env:
                        env[d] = env[operand_local(o)]
                    else:
                        env.pop(d, None)
                elif rv["rv"] == "unop" and rv["op"] == "Not" and operand_local(rv["a"]) in env:
                    env[d] = not env[operand_local(rv["a"])]
                elif rv["rv"] == "binop" and rv["op"] in ("BitAnd", "BitOr", "BitXor", "Eq", "Ne") and \
                        operand_local(rv["a"]) in env and operand_local(rv["b"]) in env:
                    a, b = env[operand_local(rv["a"])], env[operand_local(rv["b"])]
                    env[d] = {"BitAnd": a and b, "BitOr": a or b, "BitXor": a != b, "Eq": a == b, "Ne": a != b}[rv["op"]]
                else:
                    env.pop(d, None)
            if bb == target_bb:
                # statements of the target block up to the aggregate have been applied (the value is moved
                # into the aggregate in this block)
                l = operand_local(target_op)
                if target_op.get("k") == "const" and target_op.get("val") and "int" in target_op["val"]:
                    table[tuple(val[n] for n in names)] = bool(target_op["val"]["int"])
                elif l in env:
                    table[tuple(val[n] for n in names)] = env[l]
                else:
                    raise ValueError("value of the operand is not a function of the atoms")
                break
            t = blk["term"]
            if t["t"] == "call":
                hit = [n for n in names if atoms[n]("call", t)]
                if not t["dest"]["p"]:
                    if hit:
                        env[t["dest"]["l"]] = val[hit[0]]
                    else:
                        env.pop(t["dest"]["l"], None)
                if "to" not in t:
                    raise ValueError("diverging call on the path")
                bb = t["to"]
            elif t["t"] == "switch":
                l = operand_local(t["discr"])
                if l in env:
                    bb = f.switch_target(bb, 1 if env[l] else 0)
                else:
                    succ = [s for s in f.succ(bb) if target_bb in f.reachable(s)]
                    if len(succ) != 1:
                        raise ValueError("undecided branch at a switch on the path")
                    bb = succ[0]
            else:
                s = f.succ(bb)
                if len(s) != 1:
                    raise ValueError("path ends before the target")
                bb = s[0]
    return names, table
