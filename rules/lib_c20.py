"""Helpers for C20 (WebSocket handshake): idiom-independent views of
  * where an element of a header list comes from (through closure item-parameters and iterator adaptors
    as well as through `for` loops),
  * which boolean values can only be true after a given test succeeded (`any(..)`, early-return loops,
    named flags, `a && b`),
  * what a `char -> bool` separator predicate answers for a concrete character (concrete evaluation of
    the closure's MIR: `c == ',' || ..`, `matches!(c, ',' | ' ')`, `char::is_whitespace`, char / array patterns),
  * the state lineage of a hasher (`update` on one `&mut` state or `chain_update` threading the state).
Nothing here matches source text, line numbers or block numbers."""
import json
import re

from .lib import closure_of_operand, operand_local


# ------------------------------------------------------------------------------------------------ closures and their use sites
def adaptor_sites(facts, cl):
    """Call sites that take closure `cl` as an argument: [(fn, bb, term, aggregate stmt, argument index)].
    Closures of an inlined helper are found in the functions the helper was inlined into."""
    pid = cl.raw.get("parent")
    cands = []
    if pid in facts.F:
        cands.append(facts.F[pid])
    cands += [g for g in facts.F.values() if pid in g.raw.get("inlined", []) and g not in cands]
    out = []
    for g in cands:
        for bb, t in g.live_calls():
            for i, a in enumerate(t["args"]):
                h, node = closure_of_operand(g, a)
                if h is cl:
                    out.append((g, bb, t, node, i))
    return out


def _upvar_index(proj):
    for e in proj:
        if isinstance(e, str) and e.startswith("f"):
            try:
                return int(e[1:].split(":")[0])
            except ValueError:
                return None
    return None


class Hop:
    """One step of an origin chain: the slice of an operand inside `fn`; `site` = (bb, term, aggregate, argidx) of the
    adaptor call in `fn` whose closure the previous hop lives in (None for the first hop)."""
    def __init__(self, fn, sl, site):
        self.fn, self.sl, self.site = fn, sl, site


def origin_chains(facts, fn, op, max_hops=6):
    """Follow a value backwards, out of closures: the slice of `op` in `fn`; if it reaches an item parameter of the
    closure `fn` (parameter >= 2), continue with the receiver of every adaptor call the closure is passed to
    (`xs.iter().any(|x| ..)`: x comes from xs), in the enclosing function.  A `for` loop needs no hop (the slice
    runs through Iterator::next).  Returns a list of chains (lists of Hop), one per combination of use sites."""
    first = Hop(fn, fn.slice(op), None)
    chains = [[first]]
    done = []
    for _ in range(max_hops):
        nxt = []
        for ch in chains:
            last = ch[-1]
            g = last.fn
            if g.raw["kind"] == "Closure" and not g.raw.get("coroutine") and any(p >= 2 for p in last.sl.params()):
                sites = adaptor_sites(facts, g)
                if not sites:
                    done.append(ch)
                for (par, bb, t, node, ai) in sites:
                    if not t["args"]:
                        continue
                    nxt.append(ch + [Hop(par, par.slice(t["args"][0]), (bb, t, node, ai))])
            else:
                done.append(ch)
        chains = nxt
        if not chains:
            break
    return done + chains


def chain_calls(chain, pattern):
    rx = re.compile(pattern)
    out = []
    for h in chain:
        for c, bb, t in h.sl.callees:
            if rx.search(c) or (t.get("resolved") and rx.search(t["resolved"])):
                out.append((h.fn, bb, t))
    return out


def chain_closures(facts, chain):
    """Closures whose aggregate lies on a slice of the chain (mappers, filters, predicates), with nested closures."""
    out = []
    for h in chain:
        for a in h.sl.atoms:
            if a[0] == "agg" and a[1] in facts.F:
                g = facts.F[a[1]]
                if g not in out:
                    out.append(g)
                    for d in facts.descendants(g):
                        if d not in out:
                            out.append(d)
    return out


def lit_of(fn, op):
    """The single string literal an operand evaluates to inside fn (through refs/copies), else None."""
    if op.get("k") == "const" and op.get("val") and "str" in op["val"]:
        return op["val"]["str"]
    sl = fn.slice(op)
    if sl.callees or sl.params():
        return None
    vals = set()
    for a in sl.atoms:
        if a[0] in ("lit", "const"):
            try:
                v = json.loads(a[1] if a[0] == "lit" else a[2])
            except Exception:
                v = None
            if isinstance(v, dict) and "str" in v:
                vals.add(v["str"])
    return vals.pop() if len(vals) == 1 else None


def resolve_lit(chain, op):
    """String literal of an operand of the first hop's function; a captured variable is resolved through the
    closure aggregate of the next hop (so one closure shared by two inlined copies of a helper has one literal
    per copy)."""
    fn = chain[0].fn
    v = lit_of(fn, op)
    if v is not None:
        return v
    sl = fn.slice(op)
    if sl.callees or len(chain) < 2 or chain[1].site is None:
        return None
    pf = sl.param_fields()
    if len(pf) != 1 or pf[0][0] != 1:
        return None
    idx = _upvar_index(pf[0][1])
    node = chain[1].site[2]
    if idx is None or idx >= len(node["rv"]["ops"]):
        return None
    return resolve_lit(chain[1:], node["rv"]["ops"][idx])


# ------------------------------------------------------------------------------------------------ "true only after" reasoning
def _const_bool(op):
    if op.get("k") == "const" and op.get("ty") == "bool" and op.get("val") and "int" in op["val"]:
        return bool(op["val"]["int"])
    return None


def _mut_borrowed(f, l):
    return any(st["rv"]["rv"] == "ref" and st["rv"].get("mut") and st["rv"]["pl"]["l"] == l and not st["rv"]["pl"]["p"] for _, _, st in f.stmts())


def justified(f, local, want, t_atoms, f_atoms, _seen=None):
    """Can the bool `local` hold the value `want` only after some atom of t_atoms evaluated to true / some atom of
    f_atoms to false?  Every definition of the local is examined: a definition that is itself such an atom, a constant
    of the other value, a copy / `!` / `|` / `&` of justified values, or any definition in a block that path facts
    show to be reached only after one of the atoms was established (named flags set inside `if test {..}`, the
    `return true` of an early-return loop, the lowering of `a && b`)."""
    seen = _seen if _seen is not None else set()
    if (local, want) in seen:
        return True       # a flag defined in terms of itself (`found |= ..`): the other definitions decide
    seen.add((local, want))
    ds = f.defs().get(local, [])
    if not ds or _mut_borrowed(f, local) or (1 <= local <= f.argc):
        return False
    reach = f.reachable(0)
    for bb, kind, node in ds:
        if bb not in reach or f.blocks[bb]["cleanup"]:
            continue
        if f.guarded_by(bb, atoms_true=list(t_atoms), atoms_false=list(f_atoms))[0]:
            continue
        if kind == "call":
            a = ("call", bb)
            if (want and a in t_atoms) or (not want and a in f_atoms):
                continue
            return False
        if kind != "assign" or node["pl"]["p"]:
            return False
        rv = node["rv"]
        if rv["rv"] == "use":
            c = _const_bool(rv["op"])
            if c is not None:
                if c != want:
                    continue
                return False
            l2 = operand_local(rv["op"])
            if l2 is None or not justified(f, l2, want, t_atoms, f_atoms, seen):
                return False
        elif rv["rv"] == "unop" and rv["op"] == "Not":
            l2 = operand_local(rv["a"])
            if l2 is None or not justified(f, l2, not want, t_atoms, f_atoms, seen):
                return False
        elif rv["rv"] == "binop" and rv["op"] in ("BitOr", "BitAnd"):
            ls = [operand_local(rv["a"]), operand_local(rv["b"])]
            oks = [l is not None and justified(f, l, want, t_atoms, f_atoms, set(seen)) for l in ls]
            # x | y is true only if one is true: both must be justified for `true`; x & y is true only if both are: one suffices
            need_all = (rv["op"] == "BitOr") == bool(want)
            if not (all(oks) if need_all else any(oks)):
                return False
        else:
            return False
    return True


def enforced_at(f, site, t_atoms, f_atoms):
    """Is block `site` reached only after one of the atoms was established?  Either the path facts say so directly
    (tests with early returns), or one edge of a switch on a justified bool dominates the site (flags computed by
    a loop that does not leave early).  Returns (ok, how)."""
    if not t_atoms and not f_atoms:
        return False, "no test"
    ok, cex = f.guarded_by(site, atoms_true=list(t_atoms), atoms_false=list(f_atoms))
    if ok:
        return True, "every path establishes the test"
    for sbb, t in f.switches():
        if sbb not in f.reachable(0):
            continue
        d = t["discr"]
        l = operand_local(d)
        if l is None or f.local_ty(l) != "bool":
            continue
        tb, fb = f.bool_edges(sbb)
        for want, edge in ((True, tb), (False, fb)):
            if edge is None or edge not in f.succ(sbb):
                continue
            if f.edge_dominates(sbb, edge, site) and justified(f, l, want, t_atoms, f_atoms):
                return True, "the %s edge of a switch on a flag that is %s only after the test" % ("true" if want else "false", "true" if want else "false")
    return False, "a path reaches it with %s" % (("the test evaluated to " + str(sorted(set(cex.values())))) if cex else "no test evaluated")


EXISTS_ADAPTORS = r"iter::Iterator::any$|Option::<T>::is_some_and$|Option::<T>::map_or$|Option::<T>::is_none_or$"


def lift_atom(facts, chain, ebb):
    """The element test is the bool call at block `ebb` of chain[0].fn.  Lift it outwards along the chain: if the
    closure it lives in returns true only after it, and the closure is the predicate of an existential adaptor
    (`any`, `is_some_and`, `map_or(false, ..)`, or `map(..)` followed by `unwrap_or(false)`), the adaptor call is a
    test of the enclosing function that is true only if some element passed.  Returns (atom block in the last hop's
    function, None) or (None, reason)."""
    cur = ebb
    for i in range(len(chain) - 1):
        g = chain[i].fn
        bb, t, node, ai = chain[i + 1].site
        par = chain[i + 1].fn
        if not justified(g, 0, True, {("call", cur)}, set()):
            return None, "the closure testing the element can return true without the comparison succeeding"
        c = t.get("callee") or ""
        if re.search(r"iter::Iterator::any$|Option::<T>::is_some_and$", c):
            cur = bb
        elif re.search(r"Option::<T>::map_or$", c):
            if _const_bool(t["args"][1]) is not False:
                return None, "map_or default is not `false`"
            cur = bb
        elif re.search(r"Option::<T>::map$", c):
            # Option<bool> folded by unwrap_or(false) / unwrap_or_default()
            nxt = None
            cands = [t["dest"]["l"]]
            for _ in range(4):
                for b2, t2 in par.live_calls(r"Option::<T>::(unwrap_or|unwrap_or_default)$"):
                    if operand_local(t2["args"][0]) in cands and (t2["callee"].endswith("unwrap_or_default") or _const_bool(t2["args"][1]) is False):
                        nxt = b2
                if nxt is not None:
                    break
                cands += [st["pl"]["l"] for _, _, st in par.stmts() if st["rv"]["rv"] == "use" and operand_local(st["rv"]["op"]) in cands and not st["pl"]["p"]]
            if nxt is None:
                return None, "Option::map(test) is not folded with unwrap_or(false)"
            cur = nxt
        else:
            return None, "the element test is the closure of %s, which is not an existential adaptor" % c.split("::")[-1]
    return cur, None


# ------------------------------------------------------------------------------------------------ concrete char predicates
_CHAR_FNS = {
    r"char::methods::<impl char>::is_whitespace$": lambda c: chr(c).isspace(),
    r"char::methods::<impl char>::is_ascii_whitespace$": lambda c: c in (0x20, 0x09, 0x0a, 0x0c, 0x0d),
    r"char::methods::<impl char>::is_ascii_punctuation$": lambda c: c < 128 and not chr(c).isalnum() and 33 <= c <= 126,
    r"char::methods::<impl char>::is_ascii_alphanumeric$": lambda c: c < 128 and chr(c).isalnum(),
    r"char::methods::<impl char>::is_ascii_alphabetic$": lambda c: c < 128 and chr(c).isalpha(),
    r"char::methods::<impl char>::is_ascii_digit$": lambda c: 48 <= c <= 57,
    r"char::methods::<impl char>::is_alphanumeric$": lambda c: chr(c).isalnum(),
}


def eval_char_pred(g, ch, max_steps=400):
    """Concrete evaluation of the MIR of a `|c: char| -> bool` closure (or `fn(char) -> bool`) for the character
    code `ch`.  Handles comparisons with constants, `||`/`&&`, `!`, `matches!`, references, and the char
    classification methods above; anything else -> None (undecided)."""
    item = 2 if g.raw["kind"] == "Closure" else 1
    env = {item: ch}

    def rd_pl(pl):
        v = env.get(pl["l"])
        for e in pl["p"]:
            if e == "*" and isinstance(v, tuple) and v[0] == "ref":
                v = rd_pl(v[1])
            else:
                return None
        return v

    def rd(op):
        if op.get("k") == "const":
            v = op.get("val")
            if isinstance(v, dict) and "int" in v:
                return bool(v["int"]) if op.get("ty") == "bool" else v["int"]
            return None
        if op.get("k") in ("copy", "move"):
            return rd_pl(op["pl"])
        return None
    bb = 0
    for _ in range(max_steps):
        blk = g.blocks[bb]
        for st in blk["st"]:
            if st["s"] != "assign":
                continue
            rv, v = st["rv"], None
            k = rv["rv"]
            if k in ("use", "cast"):
                v = rd(rv["op"])
            elif k == "ref":
                v = ("ref", rv["pl"])
            elif k == "copyderef":
                v = rd_pl({"l": rv["pl"]["l"], "p": rv["pl"]["p"] + ["*"]})
            elif k == "unop" and rv["op"] == "Not":
                a = rd(rv["a"])
                v = (not a) if isinstance(a, bool) else None
            elif k == "binop":
                a, b = rd(rv["a"]), rd(rv["b"])
                if a is None or b is None or isinstance(a, tuple) or isinstance(b, tuple):
                    v = None
                else:
                    o = rv["op"]
                    v = {"Eq": a == b, "Ne": a != b, "Lt": a < b, "Le": a <= b, "Gt": a > b, "Ge": a >= b}.get(o)
                    if v is None and o in ("BitOr", "BitAnd", "BitXor") and isinstance(a, bool) and isinstance(b, bool):
                        v = (a or b) if o == "BitOr" else (a and b) if o == "BitAnd" else (a != b)
            elif k == "agg" and rv.get("agg") == "tuple" and not rv["ops"]:
                v = ()
            if st["pl"]["p"]:
                if st["pl"]["p"] == ["*"] and isinstance(env.get(st["pl"]["l"]), tuple) and env[st["pl"]["l"]][0] == "ref" and not env[st["pl"]["l"]][1]["p"]:
                    env[env[st["pl"]["l"]][1]["l"]] = v
                continue
            env[st["pl"]["l"]] = v
        t = blk["term"]
        k = t["t"]
        if k == "return":
            v = env.get(0)
            return v if isinstance(v, bool) else None
        if k == "switch":
            d = rd(t["discr"])
            if d is None or isinstance(d, tuple):
                return None
            d = int(d)
            nb = t["otherwise"]
            for val, tgt in t["targets"]:
                if val == d:
                    nb = tgt
            bb = nb
            continue
        if k == "call":
            c = t.get("callee") or ""
            fnc = [f for rx, f in _CHAR_FNS.items() if re.search(rx, c)]
            a = rd(t["args"][0]) if t["args"] else None
            if isinstance(a, tuple) and a[0] == "ref":
                a = rd_pl(a[1])
            if not fnc or not isinstance(a, int) or isinstance(a, bool) or t.get("to") is None or t["dest"]["p"]:
                return None
            env[t["dest"]["l"]] = bool(fnc[0](a))
            bb = t["to"]
            continue
        if "to" in t and isinstance(t["to"], int):
            bb = t["to"]
            continue
        return None
    return None


def separator_answers(facts, fn, term, chars):
    """For a `str::split`-family call: does it split at each of `chars`?  {char: True/False/None}."""
    c = term.get("callee") or ""
    if re.search(r"str::<impl str>::split_ascii_whitespace$", c):
        return {ch: ch in (0x20, 0x09, 0x0a, 0x0c, 0x0d) for ch in chars}
    if re.search(r"str::<impl str>::split_whitespace$", c):
        return {ch: chr(ch).isspace() for ch in chars}
    if len(term["args"]) < 2:
        return {ch: None for ch in chars}
    pat = term["args"][1]
    return pattern_answers(facts, fn, pat, chars)


def pattern_answers(facts, fn, pat, chars):
    """A str Pattern operand (closure / fn item over char, a char, an array or slice of chars, a one-character &str)
    evaluated at each of `chars`."""
    g, node = closure_of_operand(fn, pat)
    if g is not None:
        return {ch: (eval_char_pred(g, ch) if not node["rv"]["ops"] else None) for ch in chars}
    if pat.get("k") == "const" and pat.get("fn"):
        fnc = [f for rx, f in _CHAR_FNS.items() if re.search(rx, pat["fn"])]
        h = facts.F.get(pat["fn"])
        if fnc:
            return {ch: bool(fnc[0](ch)) for ch in chars}
        if h is not None:
            return {ch: eval_char_pred(h, ch) for ch in chars}
        return {ch: None for ch in chars}
    sl = fn.slice(pat)
    if sl.callees or sl.params():
        return {ch: None for ch in chars}
    cs, strs, other = set(), set(), False
    for a in sl.atoms:
        if a[0] in ("lit", "const"):
            try:
                v = json.loads(a[1] if a[0] == "lit" else a[2])
            except Exception:
                v = None
            ty = a[2] if a[0] == "lit" else ""
            if isinstance(v, dict) and "str" in v:
                strs.add(v["str"])
            elif isinstance(v, dict) and "int" in v and (ty == "char" or a[0] == "const"):
                cs.add(v["int"])
            else:
                other = True
        elif a[0] == "agg" and a[1] in ("array", "tuple"):
            continue
        elif a[0] in ("agg", "binop", "unop", "rv"):
            other = True
    if other or (cs and strs) or len(strs) > 1:
        return {ch: None for ch in chars}
    if strs:
        s = strs.pop()
        return {ch: (len(s) == 1 and ord(s) == ch) if len(s) == 1 else (None if chr(ch) in s else False) for ch in chars}
    if cs:
        return {ch: ch in cs for ch in chars}
    return {ch: None for ch in chars}


# ------------------------------------------------------------------------------------------------ hasher lineage
ABSORB = r"(^|::)(Digest::update|Digest::chain_update|Update::update|Update::chain)$"
FRESH = r"(^|::)(Default::default|Digest::new|Sha1::new|Sha1Core::default)$"


def hasher_root(f, op, ty_rx, max_hops=10):
    """The owned hasher local an operand denotes: `&mut h`, reborrows and moves are followed."""
    cur = operand_local(op)
    for _ in range(max_hops):
        if cur is None:
            return None
        if re.search(ty_rx, f.local_ty(cur)) and not f.local_ty(cur).startswith("&"):
            return cur
        ds = [d for d in f.defs().get(cur, []) if not d[2].get("pl", {}).get("p") or d[1] == "call"]
        if len(ds) != 1 or ds[0][1] != "assign":
            return None
        rv = ds[0][2]["rv"]
        if rv["rv"] == "ref" and rv["pl"]["p"] in ([], ["*"]):
            cur = rv["pl"]["l"]
        elif rv["rv"] == "use":
            cur = operand_local(rv["op"])
        else:
            return None
    return None


def hasher_lineage(f, fin_term, ty_rx):
    """Owned hasher locals whose state flows into finalize(): the finalized local, and transitively the locals moved
    into it or threaded through `chain_update(h, ..) -> h'`.  Returns (set of locals, [init callee names], problems)."""
    root = hasher_root(f, fin_term["args"][0], ty_rx)
    if root is None:
        return set(), [], ["finalize() is not applied to an owned hasher"]
    lin, work, inits, bad = set(), [root], [], []
    while work:
        l = work.pop()
        if l in lin:
            continue
        lin.add(l)
        for bb, kind, node in f.defs().get(l, []):
            if f.blocks[bb]["cleanup"]:
                continue
            if kind == "call":
                c = node.get("callee") or ""
                if re.search(ABSORB, c) and re.search(r"chain(_update)?$", c):
                    r = hasher_root(f, node["args"][0], ty_rx)
                    if r is None:
                        bad.append("chain_update on an unknown state")
                    else:
                        work.append(r)
                elif re.search(FRESH, c) or re.search(FRESH, node.get("resolved") or ""):
                    inits.append(c)
                else:
                    bad.append("state produced by %s" % c)
            elif kind == "assign" and not node["pl"]["p"] and node["rv"]["rv"] == "use":
                r = hasher_root(f, node["rv"]["op"], ty_rx)
                if r is None:
                    bad.append("state copied from a non-hasher")
                else:
                    work.append(r)
            else:
                bad.append("state written by %s" % (node.get("rv", {}).get("rv") or kind))
    return lin, inits, bad


# ------------------------------------------------------------------------------------------------ "a success is not forgotten"
def blocks_after_success(f, groups, free_group, forced, avoid_edges=(), max_states=60000):
    """Path exploration of `f` with concrete values for designated bool calls.  `groups` = {name: atoms}: the tests of
    the list headers; the atoms of `free_group` take both outcomes at every evaluation, the atoms of the other groups
    evaluate to true; `forced` = {atom: value} fixes further calls.  A group is *satisfied* on a path once one of its
    atoms has evaluated to true.  Bool locals are tracked through constants, copies, `!`, `|`, `&`, `==`; a switch on a
    known bool follows one edge, everything else follows all successors.  Returns (blocks reached with every group
    satisfied, all blocks reached), or (None, None) if the budget is exceeded.  Used to decide that a flag computed
    over several field lines cannot lose a match found on an earlier line."""
    group_of = {a[1]: g for g, atoms in groups.items() for a in atoms}
    fixed = {a[1]: v for a, v in forced.items()}
    avoid = set(avoid_edges)
    full = frozenset(groups)
    seen = set()
    hit, every = set(), set()
    work = [(0, frozenset(), frozenset())]
    n = 0

    def val(env, op):
        c = _const_bool(op)
        if c is not None:
            return c
        l = operand_local(op)
        return env.get(l) if l is not None else None
    while work:
        st = work.pop()
        if st in seen:
            continue
        seen.add(st)
        n += 1
        if n > max_states:
            return None, None
        bb, envf, sat = st
        every.add(bb)
        if sat == full:
            hit.add(bb)
        env = dict(envf)
        blk = f.blocks[bb]
        for s in blk["st"]:
            if s["s"] != "assign" or s["pl"]["p"]:
                continue
            l, rv = s["pl"]["l"], s["rv"]
            v = None
            if rv["rv"] == "use":
                v = val(env, rv["op"])
            elif rv["rv"] == "unop" and rv["op"] == "Not":
                a = val(env, rv["a"])
                v = (not a) if a is not None else None
            elif rv["rv"] == "binop" and rv["op"] in ("BitOr", "BitAnd", "BitXor", "Eq", "Ne"):
                a, b = val(env, rv["a"]), val(env, rv["b"])
                o = rv["op"]
                if a is not None and b is not None:
                    v = {"BitOr": a or b, "BitAnd": a and b, "BitXor": a != b, "Eq": a == b, "Ne": a != b}[o]
                elif o == "BitOr" and (a is True or b is True):
                    v = True
                elif o == "BitAnd" and (a is False or b is False):
                    v = False
            if v is None:
                env.pop(l, None)
            else:
                env[l] = v
        t = blk["term"]
        outs = [(env, sat)]
        if t["t"] == "call" and not t["dest"]["p"]:
            d = t["dest"]["l"]
            if bb in group_of:
                g = group_of[bb]
                e1 = dict(env)
                e1[d] = True
                outs = [(e1, sat | {g})]
                if g == free_group:
                    e2 = dict(env)
                    e2[d] = False
                    outs.append((e2, sat))
            elif bb in fixed:
                env[d] = fixed[bb]
            else:
                env.pop(d, None)
        succs = [s for s in f.succ(bb) if (bb, s) not in avoid]
        for env2, sat2 in outs:
            nxt = succs
            if t["t"] == "switch":
                l = operand_local(t["discr"])
                if l is not None and f.local_ty(l) == "bool" and l in env2:
                    tb, fb = f.bool_edges(bb)
                    nxt = [x for x in succs if x == (tb if env2[l] else fb)]
            fe = frozenset(env2.items())
            for x in nxt:
                work.append((x, fe, sat2))
    return hit, every
