"""Helpers for C20 (WebSocket handshake): idiom-independent views of
  * where an element of a header list comes from (through closure item-parameters and iterator adaptors
    as well as through `for` loops),
  * which boolean values can only be true after a given test succeeded (`any(..)`, early-return loops,
    named flags, `a && b`),
  * what a `char -> bool` separator predicate answers for a concrete character (concrete evaluation of
    the closure's MIR: `c == ',' || ..`, `matches!(c, ',' | ' ')`, `char::is_whitespace`, char / array patterns),
  * the state lineage of a hasher (`update` on one `&mut` state or `chain_update` threading the state).
Nothing here matches source text, line numbers or block numbers."""
import json
import re

from .lib import closure_of_operand, operand_local, switches_on_value


# ------------------------------------------------------------------------------------------------ closures and their use sites
def adaptor_sites(facts, cl):
    """Call sites that take closure `cl` as an argument: [(fn, bb, term, aggregate stmt, argument index)].
    Closures of an inlined helper are found in the functions the helper was inlined into."""
    pid = cl.raw.get("parent")
    cands = []
    if pid in facts.F:
        cands.append(facts.F[pid])
    cands += [g for g in facts.F.values() if pid in g.raw.get("inlined", []) and g not in cands]
    out = []
    for g in cands:
        for bb, t in g.live_calls():
            for i, a in enumerate(t["args"]):
                h, node = closure_of_operand(g, a)
                if h is cl:
                    out.append((g, bb, t, node, i))
    return out


def _upvar_index(proj):
    for e in proj:
        if isinstance(e, str) and e.startswith("f"):
            try:
                return int(e[1:].split(":")[0])
            except ValueError:
                return None
    return None


class Hop:
    """One step of an origin chain: the slice of an operand inside `fn`; `site` = (bb, term, aggregate, argidx) of the
    adaptor call in `fn` whose closure the previous hop lives in (None for the first hop)."""
    def __init__(self, fn, sl, site):
        self.fn, self.sl, self.site = fn, sl, site


def origin_chains(facts, fn, op, max_hops=6):
    """Follow a value backwards, out of closures: the slice of `op` in `fn`; if it reaches an item parameter of the
    closure `fn` (parameter >= 2), continue with the receiver of every adaptor call the closure is passed to
    (`xs.iter().any(|x| ..)`: x comes from xs), in the enclosing function.  A `for` loop needs no hop (the slice
    runs through Iterator::next).  Returns a list of chains (lists of Hop), one per combination of use sites."""
    first = Hop(fn, fn.slice(op), None)
    chains = [[first]]
    done = []
    for _ in range(max_hops):
        nxt = []
        for ch in chains:
            last = ch[-1]
            g = last.fn
            if g.raw["kind"] == "Closure" and not g.raw.get("coroutine") and any(p >= 2 for p in last.sl.params()):
                sites = adaptor_sites(facts, g)
                if not sites:
                    done.append(ch)
                for (par, bb, t, node, ai) in sites:
                    if not t["args"]:
                        continue
                    nxt.append(ch + [Hop(par, par.slice(t["args"][0]), (bb, t, node, ai))])
            else:
                done.append(ch)
        chains = nxt
        if not chains:
            break
    return done + chains


MAPPING_ADAPTORS = r"iter::Iterator::(map|flat_map|filter_map)$|Option::<T>::(map|and_then)$"


def element_hops(facts, chain, max_depth=4):
    """The chain plus one hop per *mapping* closure on it: the elements of `xs.flat_map(f)` / `xs.map(f)` / `xs.filter_map(f)` are
    what `f` returns, so the return-value slice of `f` (and of mapping closures nested in it) is part of the element's
    history — `lines.flat_map(|l| l.split(sep))` splits every line exactly as `lines.any(|l| l.split(sep).any(..))` does.
    Closures that only *select* elements (filter, take_while, inspect, any, find) return no element and add no hop."""
    rx = re.compile(MAPPING_ADAPTORS)
    out = list(chain)
    seen = set(id(h.fn) for h in chain)
    work = [(h, 0) for h in chain]
    while work:
        h, d = work.pop()
        if d >= max_depth:
            continue
        for c, bb, t in h.sl.callees:
            if not rx.search(c) or len(t["args"]) < 2:
                continue
            g, node = closure_of_operand(h.fn, t["args"][1])
            if g is None or id(g) in seen:
                continue
            seen.add(id(g))
            nh = Hop(g, g.slice({"l": 0, "p": []}), (bb, t, node, 1))
            out.append(nh)
            work.append((nh, d + 1))
    return out


def chain_calls(chain, pattern):
    rx = re.compile(pattern)
    out = []
    for h in chain:
        for c, bb, t in h.sl.callees:
            if rx.search(c) or (t.get("resolved") and rx.search(t["resolved"])):
                out.append((h.fn, bb, t))
    return out


def chain_fnitems(chain):
    """Function items handed to mapping adaptors on the chain (`.map(str::trim)`): [(fn, bb, term, path)]."""
    rx = re.compile(MAPPING_ADAPTORS)
    out = []
    for h in chain:
        for c, bb, t in h.sl.callees:
            if rx.search(c) and len(t["args"]) > 1 and t["args"][1].get("k") == "const" and t["args"][1].get("fn"):
                out.append((h.fn, bb, t, t["args"][1]["fn"]))
    return out


def chain_closures(facts, chain):
    """Closures whose aggregate lies on a slice of the chain (mappers, filters, predicates), with nested closures."""
    out = []
    for h in chain:
        for a in h.sl.atoms:
            if a[0] == "agg" and a[1] in facts.F:
                g = facts.F[a[1]]
                if g not in out:
                    out.append(g)
                    for d in facts.descendants(g):
                        if d not in out:
                            out.append(d)
    return out


def lit_of(fn, op):
    """The single string literal an operand evaluates to inside fn (through refs/copies), else None."""
    if op.get("k") == "const" and op.get("val") and "str" in op["val"]:
        return op["val"]["str"]
    sl = fn.slice(op)
    if sl.callees or sl.params():
        return None
    vals = set()
    for a in sl.atoms:
        if a[0] in ("lit", "const"):
            try:
                v = json.loads(a[1] if a[0] == "lit" else a[2])
            except Exception:
                v = None
            if isinstance(v, dict) and "str" in v:
                vals.add(v["str"])
    return vals.pop() if len(vals) == 1 else None


def resolve_lit(chain, op):
    """String literal of an operand of the first hop's function; a captured variable is resolved through the
    closure aggregate of the next hop (so one closure shared by two inlined copies of a helper has one literal
    per copy)."""
    fn = chain[0].fn
    v = lit_of(fn, op)
    if v is not None:
        return v
    sl = fn.slice(op)
    if sl.callees or len(chain) < 2 or chain[1].site is None:
        return None
    pf = sl.param_fields()
    if len(pf) != 1 or pf[0][0] != 1:
        return None
    idx = _upvar_index(pf[0][1])
    node = chain[1].site[2]
    if idx is None or idx >= len(node["rv"]["ops"]):
        return None
    return resolve_lit(chain[1:], node["rv"]["ops"][idx])


def returned_variant_sites(f, variant, adt="std::result::Result"):
    """Blocks of the `adt::variant{..}` aggregates that are the function's return value: the return place and the locals
    moved into it as a whole (`_0 = move _9`).  Aggregates of the same ADT that are only intermediate values (the result
    of an inlined helper that is split by `?`, the arms of a desugared combinator) are not listed."""
    locs, work = set(), [0]
    while work:
        l = work.pop()
        if l in locs:
            continue
        locs.add(l)
        for bb, kind, node in f.defs().get(l, []):
            if kind == "assign" and not node["pl"]["p"] and node["rv"]["rv"] == "use":
                l2 = operand_local(node["rv"]["op"])
                if l2 is not None and not node["rv"]["op"].get("pl", {}).get("p"):
                    work.append(l2)
    return [bb for bb, i, st in f.aggregates("^" + re.escape(adt) + "$", variant) if st["pl"]["l"] in locs and not st["pl"]["p"]]


# ------------------------------------------------------------------------------------------------ "true only after" reasoning
def _const_bool(op):
    if op.get("k") == "const" and op.get("ty") == "bool" and op.get("val") and "int" in op["val"]:
        return bool(op["val"]["int"])
    return None


def _mut_borrowed(f, l):
    return any(st["rv"]["rv"] == "ref" and st["rv"].get("mut") and st["rv"]["pl"]["l"] == l and not st["rv"]["pl"]["p"] for _, _, st in f.stmts())


def _reached_only_if_true(f, bb, locals_):
    """Block bb is reached only through the true edge of a switch on one of `locals_` (or a let-bound copy of it)."""
    for l in locals_:
        for sbb, t in switches_on_value(f, l):
            if f.local_ty(operand_local(t["discr"])) != "bool":
                continue
            tb, fb = f.bool_edges(sbb)
            if tb is not None and tb in f.succ(sbb) and tb != fb and f.edge_dominates(sbb, tb, bb):
                return True
    return False


def justified(f, local, want, t_atoms, f_atoms, _seen=None, assume=()):
    """Can the bool `local` hold the value `want` only after some atom of t_atoms evaluated to true / some atom of
    f_atoms to false?  Every definition of the local is examined: a definition that is itself such an atom, a constant
    of the other value, a copy / `!` / `|` / `&` of justified values, or any definition in a block that path facts
    show to be reached only after one of the atoms was established (named flags set inside `if test {..}`, the
    `return true` of an early-return loop, the lowering of `a && b`).  `assume`: locals taken to be true only after the
    test (the accumulator parameter of a fold closure: by induction over the elements it is the init value `false` or
    what the closure returned before)."""
    if want and local in assume:
        return True
    seen = _seen if _seen is not None else set()
    if (local, want) in seen:
        return True       # a flag defined in terms of itself (`found |= ..`): the other definitions decide
    seen.add((local, want))
    ds = f.defs().get(local, [])
    if not ds or _mut_borrowed(f, local) or (1 <= local <= f.argc):
        return False
    reach = f.reachable(0)
    for bb, kind, node in ds:
        if bb not in reach or f.blocks[bb]["cleanup"]:
            continue
        if f.guarded_by(bb, atoms_true=list(t_atoms), atoms_false=list(f_atoms))[0]:
            continue
        if want and assume and _reached_only_if_true(f, bb, assume):
            continue
        if kind == "call":
            a = ("call", bb)
            if (want and a in t_atoms) or (not want and a in f_atoms):
                continue
            return False
        if kind != "assign" or node["pl"]["p"]:
            return False
        rv = node["rv"]
        if rv["rv"] == "use":
            c = _const_bool(rv["op"])
            if c is not None:
                if c != want:
                    continue
                return False
            l2 = operand_local(rv["op"])
            if l2 is None or not justified(f, l2, want, t_atoms, f_atoms, seen, assume):
                return False
        elif rv["rv"] == "unop" and rv["op"] == "Not":
            l2 = operand_local(rv["a"])
            if l2 is None or not justified(f, l2, not want, t_atoms, f_atoms, seen, assume):
                return False
        elif rv["rv"] == "binop" and rv["op"] in ("BitOr", "BitAnd"):
            ls = [operand_local(rv["a"]), operand_local(rv["b"])]
            oks = [l is not None and justified(f, l, want, t_atoms, f_atoms, set(seen), assume) for l in ls]
            # x | y is true only if one is true: both must be justified for `true`; x & y is true only if both are: one suffices
            need_all = (rv["op"] == "BitOr") == bool(want)
            if not (all(oks) if need_all else any(oks)):
                return False
        else:
            return False
    return True


def enforced_at(f, site, t_atoms, f_atoms):
    """Is block `site` reached only after one of the atoms was established?  Either the path facts say so directly
    (tests with early returns), or one edge of a switch on a justified bool dominates the site (flags computed by
    a loop that does not leave early).  Returns (ok, how)."""
    if not t_atoms and not f_atoms:
        return False, "no test"
    ok, cex = f.guarded_by(site, atoms_true=list(t_atoms), atoms_false=list(f_atoms))
    if ok:
        return True, "every path establishes the test"
    for sbb, t in f.switches():
        if sbb not in f.reachable(0):
            continue
        d = t["discr"]
        l = operand_local(d)
        if l is None or f.local_ty(l) != "bool":
            continue
        tb, fb = f.bool_edges(sbb)
        for want, edge in ((True, tb), (False, fb)):
            if edge is None or edge not in f.succ(sbb):
                continue
            if f.edge_dominates(sbb, edge, site) and justified(f, l, want, t_atoms, f_atoms):
                return True, "the %s edge of a switch on a flag that is %s only after the test" % ("true" if want else "false", "true" if want else "false")
    return False, "a path reaches it with %s" % (("the test evaluated to " + str(sorted(set(cex.values())))) if cex else "no test evaluated")


EXISTS_ADAPTORS = r"iter::Iterator::any$|Option::<T>::is_some_and$|Option::<T>::map_or$|Option::<T>::is_none_or$"


FOLD = r"iter::Iterator::fold$"


def lift_atom(facts, chain, ebb, folds=None):
    """The element test is the bool call at block `ebb` of chain[0].fn.  Lift it outwards along the chain, keeping a
    polarity: the pair (block, pol) says `the bool computed at block has the value pol only if some element passed the
    test`.  At each hop the closure the test lives in must return some value rp only after the test had its matching
    outcome (it may negate: `|line| !names(line, "upgrade")`), and the adaptor it is the predicate of must propagate that
    value: rp = true through the existential adaptors (`any`, `is_some_and`, `map_or(false, ..)`, `find(..).is_some()`,
    `map(..)` followed by `unwrap_or(false)`, or a `fold` from `false` whose closure returns true only if its
    accumulator was true or the test held — these closures are appended to `folds`), rp = false through their duals
    (`all`, `is_none_or`, `map_or(true, ..)`, `find(..).is_none()`, `map(..).unwrap_or(true)`): `!xs.any(p)` and
    `xs.all(|x| !p(x))` are the same test.  Returns ((atom block in the last hop's function, polarity), None) or (None, reason)."""
    cur, pol = ebb, True
    for i in range(len(chain) - 1):
        g = chain[i].fn
        bb, t, node, ai = chain[i + 1].site
        par = chain[i + 1].fn
        c = t.get("callee") or ""
        # `fold(false, |found, x| found || test(x))`: the accumulator (the closure's first parameter) is `false` or what the
        # closure returned for an earlier element, so it may be assumed to be true only after the test
        is_fold = bool(re.search(FOLD, c)) and ai == 2 and g.argc == 3
        ta, fa = ({("call", cur)}, set()) if pol else (set(), {("call", cur)})
        if justified(g, 0, True, ta, fa, assume=({2} if is_fold else ())):
            rp = True
        elif not is_fold and justified(g, 0, False, ta, fa):
            rp = False
        else:
            return None, "the closure testing the element can return true without the comparison succeeding"
        if is_fold:
            if len(t["args"]) != 3 or _const_bool(t["args"][1]) is not False:
                return None, "the fold over the elements does not start from `false`"
            if folds is not None:
                folds.append(g)
            cur, pol = bb, True
        elif re.search(r"iter::Iterator::any$|Option::<T>::is_some_and$", c):
            if not rp:
                return None, "the predicate of %s is false, not true, when the element matches" % c.split("::")[-1]
            cur, pol = bb, True
        elif re.search(r"iter::Iterator::all$|Option::<T>::is_none_or$", c):
            if rp:
                return None, "the predicate of %s is true when the element matches, so its result does not depend on a match" % c.split("::")[-1]
            cur, pol = bb, False
        elif re.search(r"Option::<T>::map_or$", c):
            if _const_bool(t["args"][1]) is not (not rp):
                return None, "map_or default is not `%s`" % ("false" if rp else "true")
            cur, pol = bb, rp
        elif re.search(r"iter::Iterator::(find|position|rposition)$", c):
            # `xs.find(test).is_some()`: Some only if the test held for an element
            if not rp:
                return None, "the predicate of %s is false when the element matches" % c.split("::")[-1]
            cands = [t["dest"]["l"]]
            for _ in range(3):
                cands += [st["pl"]["l"] for _, _, st in par.stmts() if st["rv"]["rv"] == "use" and operand_local(st["rv"]["op"]) in cands and not st["pl"]["p"] and st["pl"]["l"] not in cands]
            nxt = [(b2, t2["callee"].endswith("is_some")) for b2, t2 in par.live_calls(r"Option::<T>::(is_some|is_none)$") if t2["args"] and owned_root(par, t2["args"][0])[0] in cands]
            if len(nxt) != 1:
                return None, "the result of %s(test) is not tested with is_some() / is_none()" % c.split("::")[-1]
            cur, pol = nxt[0]
        elif re.search(r"Option::<T>::map$", c):
            # Option<bool> folded by unwrap_or(false) / unwrap_or_default()  (dually unwrap_or(true) for a negated predicate)
            nxt = None
            cands = [t["dest"]["l"]]
            for _ in range(4):
                for b2, t2 in par.live_calls(r"Option::<T>::(unwrap_or|unwrap_or_default)$"):
                    if operand_local(t2["args"][0]) in cands and ((rp and t2["callee"].endswith("unwrap_or_default")) or
                                                                  (t2["callee"].endswith("unwrap_or") and _const_bool(t2["args"][1]) is (not rp))):
                        nxt = b2
                if nxt is not None:
                    break
                cands += [st["pl"]["l"] for _, _, st in par.stmts() if st["rv"]["rv"] == "use" and operand_local(st["rv"]["op"]) in cands and not st["pl"]["p"]]
            if nxt is None:
                return None, "Option::map(test) is not folded with unwrap_or(%s)" % ("false" if rp else "true")
            cur, pol = nxt, rp
        else:
            return None, "the element test is the closure of %s, which is not an existential adaptor" % c.split("::")[-1]
    if pol:
        cur = fold_option_bool(chain[-1].fn, cur)
    return (cur, pol), None


def fold_option_bool(f, bb, max_hops=4):
    """A bool call result that is only wrapped as `Some(result)` into an Option<bool> whose other definitions are `None`, and
    that Option folded by `unwrap_or(false)` / `unwrap_or_default()`: the fold is true only if the call was evaluated and true,
    so it is the same test one step later (the normalised view of `opt.map(|x| test(x)).unwrap_or(false)`, where the closure
    of `map` is spliced into the Some arm).  Returns the block of the folding call, or `bb` unchanged."""
    t = f.blocks[bb]["term"]
    if t["t"] != "call" or t["dest"]["p"]:
        return bb

    def with_moves(ls):
        ls = set(ls)
        for _ in range(max_hops):
            ls |= set(st["pl"]["l"] for _, _, st in f.stmts() if st["rv"]["rv"] == "use" and operand_local(st["rv"]["op"]) in ls and not st["pl"]["p"])
        return ls
    vals = with_moves([t["dest"]["l"]])
    opts = set()
    for _, _, st in f.stmts():
        rv = st["rv"]
        if rv["rv"] == "agg" and rv.get("adt") == "std::option::Option" and rv.get("variant") == "Some" and not st["pl"]["p"] and operand_local(rv["ops"][0]) in vals:
            opts.add(st["pl"]["l"])
    for x in sorted(opts):
        ok = True
        for dbb, kind, node in f.defs().get(x, []):
            if f.blocks[dbb]["cleanup"]:
                continue
            rv = node.get("rv", {}) if kind == "assign" else {}
            if not (kind == "assign" and not node["pl"]["p"] and rv.get("rv") == "agg" and rv.get("adt") == "std::option::Option"
                    and (rv.get("variant") == "None" or operand_local(rv["ops"][0]) in vals)):
                ok = False
        if not ok or _mut_borrowed(f, x):
            continue
        xs = with_moves([x])
        for b2, t2 in f.live_calls(r"Option::<T>::(unwrap_or|unwrap_or_default)$"):
            if operand_local(t2["args"][0]) in xs and (t2["callee"].endswith("unwrap_or_default") or _const_bool(t2["args"][1]) is False):
                return b2
    return bb


# ------------------------------------------------------------------------------------------------ concrete char predicates
_CHAR_FNS = {
    r"char::methods::<impl char>::is_whitespace$": lambda c: chr(c).isspace(),
    r"char::methods::<impl char>::is_ascii_whitespace$": lambda c: c in (0x20, 0x09, 0x0a, 0x0c, 0x0d),
    r"char::methods::<impl char>::is_ascii_punctuation$": lambda c: c < 128 and not chr(c).isalnum() and 33 <= c <= 126,
    r"char::methods::<impl char>::is_ascii_alphanumeric$": lambda c: c < 128 and chr(c).isalnum(),
    r"char::methods::<impl char>::is_ascii_alphabetic$": lambda c: c < 128 and chr(c).isalpha(),
    r"char::methods::<impl char>::is_ascii_digit$": lambda c: 48 <= c <= 57,
    r"char::methods::<impl char>::is_alphanumeric$": lambda c: chr(c).isalnum(),
}


def eval_char_pred(g, ch, max_steps=400):
    """Concrete evaluation of the MIR of a `|c: char| -> bool` closure (or `fn(char) -> bool`) for the character
    code `ch`.  Handles comparisons with constants, `||`/`&&`, `!`, `matches!`, references, and the char
    classification methods above; anything else -> None (undecided)."""
    item = 2 if g.raw["kind"] == "Closure" else 1
    env = {item: ch}

    def rd_pl(pl):
        v = env.get(pl["l"])
        for e in pl["p"]:
            if e == "*" and isinstance(v, tuple) and v[0] == "ref":
                v = rd_pl(v[1])
            else:
                return None
        return v

    def rd(op):
        if op.get("k") == "const":
            v = op.get("val")
            if isinstance(v, dict) and "int" in v:
                return bool(v["int"]) if op.get("ty") == "bool" else v["int"]
            return None
        if op.get("k") in ("copy", "move"):
            return rd_pl(op["pl"])
        return None
    bb = 0
    for _ in range(max_steps):
        blk = g.blocks[bb]
        for st in blk["st"]:
            if st["s"] != "assign":
                continue
            rv, v = st["rv"], None
            k = rv["rv"]
            if k in ("use", "cast"):
                v = rd(rv["op"])
            elif k == "ref":
                v = ("ref", rv["pl"])
            elif k == "copyderef":
                v = rd_pl({"l": rv["pl"]["l"], "p": rv["pl"]["p"] + ["*"]})
            elif k == "unop" and rv["op"] == "Not":
                a = rd(rv["a"])
                v = (not a) if isinstance(a, bool) else None
            elif k == "binop":
                a, b = rd(rv["a"]), rd(rv["b"])
                if a is None or b is None or isinstance(a, tuple) or isinstance(b, tuple):
                    v = None
                else:
                    o = rv["op"]
                    v = {"Eq": a == b, "Ne": a != b, "Lt": a < b, "Le": a <= b, "Gt": a > b, "Ge": a >= b}.get(o)
                    if v is None and o in ("BitOr", "BitAnd", "BitXor") and isinstance(a, bool) and isinstance(b, bool):
                        v = (a or b) if o == "BitOr" else (a and b) if o == "BitAnd" else (a != b)
            elif k == "agg" and rv.get("agg") == "tuple" and not rv["ops"]:
                v = ()
            if st["pl"]["p"]:
                if st["pl"]["p"] == ["*"] and isinstance(env.get(st["pl"]["l"]), tuple) and env[st["pl"]["l"]][0] == "ref" and not env[st["pl"]["l"]][1]["p"]:
                    env[env[st["pl"]["l"]][1]["l"]] = v
                continue
            env[st["pl"]["l"]] = v
        t = blk["term"]
        k = t["t"]
        if k == "return":
            v = env.get(0)
            return v if isinstance(v, bool) else None
        if k == "switch":
            d = rd(t["discr"])
            if d is None or isinstance(d, tuple):
                return None
            d = int(d)
            nb = t["otherwise"]
            for val, tgt in t["targets"]:
                if val == d:
                    nb = tgt
            bb = nb
            continue
        if k == "call":
            c = t.get("callee") or ""
            fnc = [f for rx, f in _CHAR_FNS.items() if re.search(rx, c)]
            a = rd(t["args"][0]) if t["args"] else None
            if isinstance(a, tuple) and a[0] == "ref":
                a = rd_pl(a[1])
            if not fnc or not isinstance(a, int) or isinstance(a, bool) or t.get("to") is None or t["dest"]["p"]:
                return None
            env[t["dest"]["l"]] = bool(fnc[0](a))
            bb = t["to"]
            continue
        if "to" in t and isinstance(t["to"], int):
            bb = t["to"]
            continue
        return None
    return None


def separator_answers(facts, fn, term, chars):
    """For a `str::split`-family call: does it split at each of `chars`?  {char: True/False/None}."""
    c = term.get("callee") or ""
    if re.search(r"str::<impl str>::split_ascii_whitespace$", c):
        return {ch: ch in (0x20, 0x09, 0x0a, 0x0c, 0x0d) for ch in chars}
    if re.search(r"str::<impl str>::split_whitespace$", c):
        return {ch: chr(ch).isspace() for ch in chars}
    if len(term["args"]) < 2:
        return {ch: None for ch in chars}
    pat = term["args"][1]
    return pattern_answers(facts, fn, pat, chars)


def pattern_answers(facts, fn, pat, chars):
    """A str Pattern operand (closure / fn item over char, a char, an array or slice of chars, a one-character &str)
    evaluated at each of `chars`."""
    g, node = closure_of_operand(fn, pat)
    if g is not None:
        return {ch: (eval_char_pred(g, ch) if not node["rv"]["ops"] else None) for ch in chars}
    if pat.get("k") == "const" and pat.get("fn"):
        fnc = [f for rx, f in _CHAR_FNS.items() if re.search(rx, pat["fn"])]
        h = facts.F.get(pat["fn"])
        if fnc:
            return {ch: bool(fnc[0](ch)) for ch in chars}
        if h is not None:
            return {ch: eval_char_pred(h, ch) for ch in chars}
        return {ch: None for ch in chars}
    sl = fn.slice(pat)
    if sl.callees or sl.params():
        return {ch: None for ch in chars}
    cs, strs, other = set(), set(), False
    for a in sl.atoms:
        if a[0] in ("lit", "const"):
            try:
                v = json.loads(a[1] if a[0] == "lit" else a[2])
            except Exception:
                v = None
            ty = a[2] if a[0] == "lit" else ""
            if isinstance(v, dict) and "str" in v:
                strs.add(v["str"])
            elif isinstance(v, dict) and "int" in v and (ty == "char" or a[0] == "const"):
                cs.add(v["int"])
            elif isinstance(v, dict) and isinstance(v.get("list"), list) and v["list"] and all(isinstance(e, dict) and "int" in e for e in v["list"]):
                # a named constant array of chars (`const SEPARATORS: [char; 3]`), rendered element by element
                cs.update(e["int"] for e in v["list"])
            else:
                other = True
        elif a[0] == "agg" and a[1] in ("array", "tuple"):
            continue
        elif a[0] in ("agg", "binop", "unop", "rv"):
            other = True
    if other or (cs and strs) or len(strs) > 1:
        return {ch: None for ch in chars}
    if strs:
        s = strs.pop()
        return {ch: (len(s) == 1 and ord(s) == ch) if len(s) == 1 else (None if chr(ch) in s else False) for ch in chars}
    if cs:
        return {ch: ch in cs for ch in chars}
    return {ch: None for ch in chars}


# ------------------------------------------------------------------------------------------------ hasher lineage
ABSORB = r"(^|::)(Digest::update|Digest::chain_update|Update::update|Update::chain)$"
FRESH = r"(^|::)(Default::default|Digest::new|Digest::new_with_prefix|Sha1::new|Sha1Core::default)$"
WITH_PREFIX = r"(^|::)Digest::new_with_prefix$"


def hasher_root(f, op, ty_rx, max_hops=10):
    """The owned hasher local an operand denotes: `&mut h`, reborrows and moves are followed."""
    cur = operand_local(op)
    for _ in range(max_hops):
        if cur is None:
            return None
        if re.search(ty_rx, f.local_ty(cur)) and not f.local_ty(cur).startswith("&"):
            return cur
        ds = [d for d in f.defs().get(cur, []) if not d[2].get("pl", {}).get("p") or d[1] == "call"]
        if len(ds) != 1 or ds[0][1] != "assign":
            return None
        rv = ds[0][2]["rv"]
        if rv["rv"] == "ref" and rv["pl"]["p"] in ([], ["*"]):
            cur = rv["pl"]["l"]
        elif rv["rv"] == "use":
            cur = operand_local(rv["op"])
        else:
            return None
    return None


def hasher_lineage(f, fin_term, ty_rx):
    """Owned hasher locals whose state flows into finalize(): the finalized local, and transitively the locals moved
    into it or threaded through `chain_update(h, ..) -> h'`.  Returns (set of locals, [init callee names], problems)."""
    root = hasher_root(f, fin_term["args"][0], ty_rx)
    if root is None:
        return set(), [], ["finalize() is not applied to an owned hasher"]
    lin, work, inits, bad = set(), [root], [], []
    while work:
        l = work.pop()
        if l in lin:
            continue
        lin.add(l)
        for bb, kind, node in f.defs().get(l, []):
            if f.blocks[bb]["cleanup"]:
                continue
            if kind == "call":
                c = node.get("callee") or ""
                if re.search(ABSORB, c) and re.search(r"chain(_update)?$", c):
                    r = hasher_root(f, node["args"][0], ty_rx)
                    if r is None:
                        bad.append("chain_update on an unknown state")
                    else:
                        work.append(r)
                elif re.search(FRESH, c) or re.search(FRESH, node.get("resolved") or ""):
                    inits.append(c)
                else:
                    bad.append("state produced by %s" % c)
            elif kind == "assign" and not node["pl"]["p"] and node["rv"]["rv"] == "use":
                r = hasher_root(f, node["rv"]["op"], ty_rx)
                if r is None:
                    bad.append("state copied from a non-hasher")
                else:
                    work.append(r)
            else:
                bad.append("state written by %s" % (node.get("rv", {}).get("rv") or kind))
    return lin, inits, bad


# ------------------------------------------------------------------------------------------------ the hashed message, idiom-independent
ONE_SHOT = r"(^|::)Digest::digest$"
FINALIZE = r"(^|::)Digest::finalize$"
DIGEST_OUT = r"(^|::)Digest::(finalize|digest)$"
BUF_FRESH = r"vec::Vec::<T>::(new|with_capacity)$|string::String::(new|with_capacity)$|Default::default$"
BUF_FROM = r"<impl \[T\]>::to_vec$|borrow::ToOwned::to_owned$|convert::From::from$|convert::Into::into$|vec::Vec::<T>::from$"
BUF_APPEND = r"vec::Vec::<T, A>::extend_from_slice$|iter::Extend::extend$|string::String::push_str$"
BUF_VIEW = r"ops::Deref::deref$|convert::AsRef::as_ref$|borrow::Borrow::borrow$|vec::Vec::<T, A>::as_slice$|string::String::(as_bytes|as_str)$|str::<impl str>::as_bytes$"
CONCAT = r"slice::<impl \[T\]>::concat$|slice::Concat::concat$"


def _single_def(f, l):
    ds = [d for d in f.defs().get(l, []) if not f.blocks[d[0]]["cleanup"]]
    return ds[0] if len(ds) == 1 else None


def owned_root(f, op, view_rx=None, max_hops=12):
    """The owned local behind an operand: shared/mutable borrows, reborrows, whole-value moves and (optionally) view calls
    (`Deref::deref(&v)`, `as_slice`) are followed.  Returns (local, went through a `&mut`) or (None, False)."""
    cur, mut = operand_local(op), False
    rx = re.compile(view_rx) if view_rx else None
    for _ in range(max_hops):
        if cur is None:
            return None, False
        if not f.local_ty(cur).startswith("&") or 1 <= cur <= f.argc:
            return cur, mut
        d = _single_def(f, cur)
        if d is None:
            return None, False
        bb, kind, node = d
        if kind == "assign" and not node["pl"]["p"]:
            rv = node["rv"]
            if rv["rv"] == "ref" and rv["pl"]["p"] in ([], ["*"]):
                mut = mut or bool(rv.get("mut"))
                cur = rv["pl"]["l"]
            elif rv["rv"] in ("use", "cast"):
                cur = operand_local(rv["op"])
            else:
                return None, False
        elif kind == "call" and rx and rx.search(node.get("callee") or "") and node["args"]:
            cur = operand_local(node["args"][0])
        else:
            return None, False
    return None, False


def digest_message(f, ty_rx):
    """What is hashed, as an ordered list of byte pieces, whatever the idiom:
      * streaming  — `h = fresh(); h.update(a); h.update(b); h.finalize()` or `fresh().chain_update(a).chain_update(b).finalize()`;
      * one-shot   — `Digest::digest(buf)` where `buf` is built in this function: an empty Vec/String appended to with
                     extend_from_slice / extend / push_str, a copy of the first piece (`a.to_vec()`) appended to, or
                     `[a, b].concat()`.
    Returns a dict {form, out=(bb, term) of the call producing the digest, pieces=[(bb, operand)] in program order,
    ordered (each piece's block strictly dominates the next and the last dominates `out`, none in a loop), one_state
    (ok, text), fresh (ok, text)} or a string naming the anchor that was not found."""
    ups, fin, shots = f.live_calls(ABSORB), f.live_calls(FINALIZE), f.live_calls(ONE_SHOT)
    if len(fin) + len(shots) != 1:
        return "exactly one Digest::finalize / Digest::digest in %s (%d/%d)" % (f.id.split("::")[-1], len(fin), len(shots))
    loops = f.loop_blocks()

    def in_order(sites, out_bb):
        seq = sites + [out_bb]
        return all(seq[i] != seq[i + 1] and f.dominates(seq[i], seq[i + 1]) for i in range(len(seq) - 1)) and not any(b in loops for b in sites)

    def sort_sites(pieces):
        # program order = dominance order (a total order is required; otherwise the original order is kept and `ordered` fails)
        return sorted(pieces, key=lambda p: sum(1 for q in pieces if q[0] != p[0] and f.dominates(q[0], p[0])))
    if fin:
        fbb, ft = fin[0]
        lin, inits, probs = hasher_lineage(f, ft, ty_rx)
        # `Sha1::new_with_prefix(a)` = a fresh state that has absorbed `a`
        pre = [(bb, t["args"][0]) for bb, t in f.live_calls(WITH_PREFIX) if t["args"] and not t["dest"]["p"] and t["dest"]["l"] in lin]
        pieces = sort_sites(pre + [(bb, t["args"][1]) for bb, t in ups if len(t["args"]) > 1])
        roots = [hasher_root(f, t["args"][0], ty_rx) for bb, t in ups]
        one = bool(lin) and bool(roots) and all(r in lin for r in roots) and not probs
        return {"form": "streaming", "out": (fbb, ft), "pieces": pieces, "ordered": in_order([p[0] for p in pieces], fbb),
                "one_state": (one, "every absorbed value and finalize operate on one SHA-1 state lineage (locals %s; absorbed into %s)%s" % (sorted(lin), roots, ("; " + "; ".join(probs)) if probs else "")),
                "fresh": (len(inits) == 1 and not probs, "hasher initialised by %s" % inits)}
    obb, ot = shots[0]
    if ups:
        return "a one-shot Digest::digest next to %d update call(s)" % len(ups)
    if not ot["args"]:
        return "the argument of Digest::digest"
    root, _ = owned_root(f, ot["args"][0], BUF_VIEW)
    if root is None:
        return "the buffer handed to Digest::digest (not an owned value built in this function)"
    if 1 <= root <= f.argc:
        # digest(key) alone: one piece, the caller decides that this is not key ++ GUID
        return {"form": "one-shot", "out": (obb, ot), "pieces": [(obb, ot["args"][0])], "ordered": True, "one_state": (True, "the argument itself is hashed"), "fresh": (True, "Digest::digest starts from the initial state")}
    pieces, probs, fresh = [], [], []
    work, seen = [root], set()
    while work:
        l = work.pop()
        if l in seen:
            continue
        seen.add(l)
        for bb, kind, node in f.defs().get(l, []):
            if f.blocks[bb]["cleanup"]:
                continue
            if kind == "call":
                c = node.get("callee") or ""
                if re.search(BUF_FRESH, c) or re.search(BUF_FRESH, node.get("resolved") or ""):
                    fresh.append(c)
                elif re.search(CONCAT, c) and node["args"]:
                    arr, _m = owned_root(f, node["args"][0])
                    d = _single_def(f, arr) if arr is not None else None
                    if d is None or d[1] != "assign" or d[2]["rv"]["rv"] != "agg" or d[2]["rv"].get("agg") != "array":
                        probs.append("concat() of something that is not an array literal")
                    else:
                        # the elements of the array literal, in order; all in one block: a rank keeps their order
                        for i, o in enumerate(d[2]["rv"]["ops"]):
                            pieces.append((d[0], o, i))
                        fresh.append(c)
                elif re.search(BUF_FROM, c) and len(node["args"]) == 1:
                    pieces.append((bb, node["args"][0], 0))
                    fresh.append(c)
                else:
                    probs.append("buffer produced by %s" % c)
            elif kind == "assign" and not node["pl"]["p"] and node["rv"]["rv"] == "use" and operand_local(node["rv"]["op"]) is not None:
                work.append(operand_local(node["rv"]["op"]))
            else:
                probs.append("buffer written by %s" % (node.get("rv", {}).get("rv") or kind))
    # every call that receives a mutable borrow of the buffer either appends a piece or is a problem
    for bb, t in f.live_calls():
        for i, a in enumerate(t["args"]):
            r, mut = owned_root(f, a)
            if r in seen and mut:
                c = t.get("callee") or "<indirect>"
                if i == 0 and re.search(BUF_APPEND, c) and len(t["args"]) == 2:
                    pieces.append((bb, t["args"][1], 0))
                elif re.search(r"vec::Vec::<T, A>::reserve(_exact)?$|string::String::reserve(_exact)?$", c):
                    pass
                else:
                    probs.append("the buffer is also modified by %s" % c)
    # by-value uses other than the digest (a buffer moved elsewhere and back is not followed)
    for l in seen:
        if any(st["rv"]["rv"] == "ref" and st["rv"].get("mut") and st["rv"]["pl"]["l"] == l and st["rv"]["pl"]["p"] for _, _, st in f.stmts()):
            probs.append("a part of the buffer is borrowed mutably")
        if any(st["pl"]["l"] == l and st["pl"]["p"] for _, _, st in f.stmts()):
            probs.append("a part of the buffer is assigned")
    ranked = sorted(pieces, key=lambda p: (sum(1 for q in pieces if q[0] != p[0] and f.dominates(q[0], p[0])), p[2]))
    sites = []
    for p in ranked:
        if not sites or sites[-1] != p[0]:
            sites.append(p[0])
    same_block_ok = all(len(set(q[2] for q in ranked if q[0] == b)) == sum(1 for q in ranked if q[0] == b) for b in sites)
    return {"form": "one-shot", "out": (obb, ot), "pieces": [(p[0], p[1]) for p in ranked], "ordered": in_order(sites, obb) and same_block_ok,
            "one_state": (not probs, "Digest::digest hashes one buffer (locals %s) built here%s" % (sorted(seen), ("; " + "; ".join(sorted(set(probs)))) if probs else "")),
            "fresh": (len(fresh) == 1 and not probs, "buffer initialised by %s; Digest::digest starts from the initial state" % fresh)}


# ------------------------------------------------------------------------------------------------ "a success is not forgotten"
def blocks_after_success(f, groups, free_group, forced, avoid_edges=(), max_states=60000, matched=None):
    """Path exploration of `f` with concrete values for designated bool calls.  `groups` = {name: atoms}: the tests of
    the list headers; the atoms of `free_group` take both outcomes at every evaluation, the atoms of the other groups
    evaluate to true; `forced` = {atom: value} fixes further calls.  A group is *satisfied* on a path once one of its
    atoms has evaluated to true.  Bool locals are tracked through constants, copies, `!`, `|`, `&`, `==`; a switch on a
    known bool follows one edge, everything else follows all successors.  Returns (blocks reached with every group
    satisfied, all blocks reached), or (None, None) if the budget is exceeded.  Used to decide that a flag computed
    over several field lines cannot lose a match found on an earlier line."""
    group_of = {a[1]: g for g, atoms in groups.items() for a in atoms}
    # the outcome of an atom that means `an element matched`: true, or false for an atom of negative polarity (`all(|x| !p(x))`)
    mval = {a[1]: v for a, v in (matched or {}).items()}
    fixed = {a[1]: v for a, v in forced.items()}
    avoid = set(avoid_edges)
    full = frozenset(groups)
    seen = set()
    hit, every = set(), set()
    work = [(0, frozenset(), frozenset())]
    n = 0

    def val(env, op):
        c = _const_bool(op)
        if c is not None:
            return c
        l = operand_local(op)
        return env.get(l) if l is not None else None
    while work:
        st = work.pop()
        if st in seen:
            continue
        seen.add(st)
        n += 1
        if n > max_states:
            return None, None
        bb, envf, sat = st
        every.add(bb)
        if sat == full:
            hit.add(bb)
        env = dict(envf)
        blk = f.blocks[bb]
        for s in blk["st"]:
            if s["s"] != "assign" or s["pl"]["p"]:
                continue
            l, rv = s["pl"]["l"], s["rv"]
            v = None
            if rv["rv"] == "use":
                v = val(env, rv["op"])
            elif rv["rv"] == "unop" and rv["op"] == "Not":
                a = val(env, rv["a"])
                v = (not a) if a is not None else None
            elif rv["rv"] == "binop" and rv["op"] in ("BitOr", "BitAnd", "BitXor", "Eq", "Ne"):
                a, b = val(env, rv["a"]), val(env, rv["b"])
                o = rv["op"]
                if a is not None and b is not None:
                    v = {"BitOr": a or b, "BitAnd": a and b, "BitXor": a != b, "Eq": a == b, "Ne": a != b}[o]
                elif o == "BitOr" and (a is True or b is True):
                    v = True
                elif o == "BitAnd" and (a is False or b is False):
                    v = False
            if v is None:
                env.pop(l, None)
            else:
                env[l] = v
        t = blk["term"]
        outs = [(env, sat)]
        if t["t"] == "call" and not t["dest"]["p"]:
            d = t["dest"]["l"]
            if bb in group_of:
                g = group_of[bb]
                e1 = dict(env)
                e1[d] = mval.get(bb, True)
                outs = [(e1, sat | {g})]
                if g == free_group:
                    e2 = dict(env)
                    e2[d] = not mval.get(bb, True)
                    outs.append((e2, sat))
            elif bb in fixed:
                env[d] = fixed[bb]
            else:
                env.pop(d, None)
        succs = [s for s in f.succ(bb) if (bb, s) not in avoid]
        for env2, sat2 in outs:
            nxt = succs
            if t["t"] == "switch":
                l = operand_local(t["discr"])
                if l is not None and f.local_ty(l) == "bool" and l in env2:
                    tb, fb = f.bool_edges(bb)
                    nxt = [x for x in succs if x == (tb if env2[l] else fb)]
            fe = frozenset(env2.items())
            for x in nxt:
                work.append((x, fe, sat2))
    return hit, every


# ------------------------------------------------------------------------------------------------ who built this HttpError
ERR_ADT = "error::HttpError"
CONVERT = r"(^|::)convert::(Into::into|From::from)$"


def conversion_impl(facts, term, target=ERR_ADT):
    """`x.into()` / `Target::from(x)` with a crate-local `impl From<X> for Target`: the Fn of that impl's `from`
    (a conversion written by hand is a constructor like any other: what it returns decides).  Returns (Fn or None, source type);
    (None, None) if the call is not a conversion into `target`."""
    if not re.search(CONVERT, term.get("callee") or ""):
        return None, None
    gargs = term.get("gargs") or []
    if target not in gargs or len(gargs) != 2:
        return None, None
    src = [g for g in gargs if g != target]
    if not src:
        return None, target          # From<T> for T: the identity
    src = src[0]
    for i in facts.impls:
        if i["trait"] == "std::convert::From" and i["self"] == target and ("From<%s>" % src) in i["impl"]:
            for it in i["items"]:
                if it["name"] == "from" and it["id"] in facts.F:
                    return facts.F[it["id"]], src
    return None, src


def error_ctor_names(facts, f, op, depth=3):
    """The HttpError constructors that can have built the error value `op` of `f`, whatever carries it: a direct
    `HttpError::for_*(..)` call, the return value of a closure on the slice (`ok_or_else(|| ..)`), or a hand-written conversion
    (`Defect::X.into()` with `impl From<Defect> for HttpError`: the constructors its `from` returns).  A struct literal of
    HttpError or a conversion without a crate-local impl is reported under a `<..>` name, so that a caller asking for
    `== {for_bad_request}` fails closed."""
    sl = f.slice(op)
    names = set(c for c in sl.callee_names() if re.search(r"^error::HttpError::for_", c))
    if any(a[0] == "agg" and a[1] == ERR_ADT for a in sl.atoms):
        names.add("<HttpError struct literal>")
    for a in sl.atoms:
        if a[0] == "agg" and a[1] in facts.F:
            for g in [facts.F[a[1]]] + facts.descendants(facts.F[a[1]]):
                names |= set(c for c in g.slice({"l": 0, "p": []}).callee_names() if re.search(r"^error::HttpError::for_", c))
    for c, bb, t in sl.callees:
        g, src = conversion_impl(facts, t)
        if src is None or src == ERR_ADT:
            continue
        if g is None or depth <= 0:
            names.add("<conversion from %s>" % src)
            continue
        inner = error_ctor_names(facts, g, {"k": "copy", "pl": {"l": 0, "p": []}}, depth - 1)
        names |= inner or {"<conversion from %s builds no HttpError constructor>" % src}
    return names


# ------------------------------------------------------------------------------------------------ the encoded text and where it goes
def encoded_text(f, ebb, et):
    """The local that holds the text produced by the base64 call at block ebb: the destination of `Engine::encode`, or the String
    that `Engine::encode_string(engine, data, &mut s)` appends to — which must then be a fresh String (`String::new()` /
    `with_capacity`) that nothing else writes to, and the call must not be repeated.  Returns (local or None, is_buffer, text)."""
    c = et.get("callee") or ""
    if c.endswith("::encode"):
        if et["dest"]["p"]:
            return None, False, "the result of Engine::encode is stored into a part of a value"
        return et["dest"]["l"], False, "text = the value returned by Engine::encode"
    if not c.endswith("::encode_string") or len(et["args"]) != 3:
        return None, False, "unknown encoder %s" % c
    root, mut = owned_root(f, et["args"][2])
    if root is None or not mut or 1 <= root <= f.argc:
        return None, True, "encode_string does not append to a String owned by this function"
    ds = [d for d in f.defs().get(root, []) if not f.blocks[d[0]]["cleanup"]]
    if len(ds) != 1 or ds[0][1] != "call" or not re.search(r"string::String::(new|with_capacity)$", ds[0][2].get("callee") or ""):
        return None, True, "the String handed to encode_string is not a fresh one (String::new / with_capacity)"
    probs = []
    if ebb in f.loop_blocks():
        probs.append("encode_string is called in a loop")
    for bb, t in f.live_calls():
        for i, a in enumerate(t["args"]):
            r, m = owned_root(f, a)
            if r == root and m and bb != ebb and not re.search(r"string::String::reserve(_exact)?$", t.get("callee") or ""):
                probs.append("the String is also modified by %s" % (t.get("callee") or "<indirect>"))
    if any(st["pl"]["l"] == root and st["pl"]["p"] for _, _, st in f.stmts()):
        probs.append("a part of the String is assigned")
    if probs:
        return None, True, "; ".join(sorted(set(probs)))
    return root, True, "text = the fresh String that Engine::encode_string appends to"


def arrives_unmodified(f, sink, res, is_buffer, ebb=None):
    """Every value the operand / place `sink` may hold is the text `res` (from encoded_text), carried there as a whole: moved,
    wrapped into and projected out of Some / Ok (`.map(..).ok_or_else(..)?` in the normalised view), through `?` — no other
    origin, no part of it (lib_c01.sources); and no String derived from it is handed out mutably on the way (the buffer of
    encode_string itself is vetted by encoded_text)."""
    from .lib_c01 import sources
    if sink is None or res is None:
        return False
    ps = sources(f, sink, transparent=[r"ops::Try::branch$"])
    if not ps:
        return False
    for p in ps:
        if p.kind() != "call" or p.root[1] != res or p.path or p.calls and any(not re.search(r"ops::Try::branch$", c) for c, _ in p.calls):
            return False
        if not is_buffer and ebb is not None and p.root[3] != ebb:
            return False
    tainted, _ = f.forward([res])
    return not any(_mut_borrowed(f, x) for x in tainted if not (is_buffer and x == res) and re.match(r"(std|alloc)::string::String$", f.local_ty(x) or ""))


# ------------------------------------------------------------------------------------------------ a local normal form of one function
# (generic; belongs in engine.py next to _inline_unknown_helpers)
def _walk_places(o, fn, ctx="other"):
    """Call fn(place, kind) for every place in a MIR fragment; kind = 'read' for the place of a copy/move operand, 'def' for the
    destination of an assignment, 'other' else."""
    if isinstance(o, list):
        for x in o:
            _walk_places(x, fn, ctx)
    elif isinstance(o, dict):
        if "l" in o and "p" in o and len(o) == 2:
            fn(o, ctx)
            return
        if o.get("k") in ("copy", "move") and "pl" in o:
            _walk_places(o["pl"], fn, "read")
            return
        for k, v in o.items():
            _walk_places(v, fn, "def" if k == "pl" and o.get("s") == "assign" else "other")


def _inline_local_closure_calls(facts, fn, raw, max_blocks=1500):
    """`let helper = |a, b| ..; helper(x, y)`: a closure bound to a local and called directly is a local function.  Its body is
    inlined at every direct call site (`Fn::call(&helper, (x, y))` resolved to the closure), the environment reference and the
    elements of the argument tuple bound to its parameters, exactly as the engine inlines a helper `fn`; the closures defined
    inside it become children of the caller (raw["inlined"]).  Returns the ids of the closures inlined."""
    from .engine import _remap, _rename_local
    home = set([raw["id"]] + list(raw.get("inlined", [])))
    done = []
    i = 0
    while i < len(raw["blocks"]) and len(raw["blocks"]) < max_blocks:
        blk = raw["blocks"][i]
        i += 1
        t = blk["term"]
        if t["t"] != "call" or blk.get("cleanup") or not re.search(r"ops::(Fn::call|FnMut::call_mut|FnOnce::call_once)$", t.get("callee") or ""):
            continue
        g = facts.F.get(t.get("resolved") or "")
        if g is None or g.raw["kind"] != "Closure" or g.raw.get("coroutine") or g.raw.get("parent") not in home or len(t["args"]) != 2:
            continue
        tl = operand_local(t["args"][1])
        tup = [st for st in blk["st"] if st["s"] == "assign" and st["pl"] == {"l": tl, "p": []} and st["rv"]["rv"] == "agg" and st["rv"].get("agg") == "tuple"]
        if tl is None or len(tup) != 1 or len(tup[0]["rv"]["ops"]) != g.raw["argc"] - 1:
            continue
        graw = g.raw
        loff, boff = len(raw["locals"]), len(raw["blocks"])
        line = t.get("line", 0)
        blk["st"].append({"s": "assign", "pl": {"l": loff + 1, "p": []}, "rv": {"rv": "use", "op": t["args"][0]}, "line": line, "inl": graw["id"]})
        for k, a in enumerate(tup[0]["rv"]["ops"]):
            blk["st"].append({"s": "assign", "pl": {"l": loff + 2 + k, "p": []}, "rv": {"rv": "use", "op": a}, "line": line, "inl": graw["id"]})
        ret_to, dest = t.get("to"), t["dest"]
        blk["term"] = {"t": "goto", "to": boff, "line": line, "exp": t.get("exp", False), "inl_call": graw["id"]}
        raw["locals"] = raw["locals"] + list(graw["locals"])
        for nm in graw["names"]:
            raw["names"].append({"name": nm["name"], "pl": _remap(nm["pl"], loff, boff)})
        direct = not dest["p"]
        for gb in graw["blocks"]:
            nb = _remap(gb, loff, boff)
            nb["bb"] = gb["bb"] + boff
            if nb["term"]["t"] == "return":
                if not direct:
                    nb["st"].append({"s": "assign", "pl": dest, "rv": {"rv": "use", "op": {"k": "move", "pl": {"l": loff, "p": []}}}, "line": line, "inl": graw["id"]})
                nb["term"] = ({"t": "goto", "to": ret_to, "line": line, "exp": False} if ret_to is not None else {"t": "unreachable", "line": line, "exp": False})
            if direct:
                _rename_local(nb, loff, dest["l"])
            raw["blocks"].append(nb)
        raw.setdefault("inlined", [])
        for x in [graw["id"]] + list(graw.get("inlined", [])):
            if x not in raw["inlined"]:
                raw["inlined"].append(x)
        home.add(graw["id"])
        done.append(graw["id"])
    return done


def _split_bool_tuples(raw):
    """`match (a, b) { (true, true) => .., (false, _) => .., .. }`: a tuple of bools that is only built whole and read field by
    field is replaced by one local per field, so that the switches on `t.0` / `t.1` are switches on bool locals (which the
    path-sensitive facts follow through copies).  Returns the number of tuples split."""
    n = 0
    for T, ty in enumerate(list(raw["locals"])):
        m = re.match(r"^\((bool, )*bool,?\)$", ty or "")
        if not m or T <= raw["argc"]:
            continue
        arity = ty.count("bool")
        ok = [True]
        occ = []

        def see(pl, kind):
            if pl["l"] != T:
                if any(isinstance(e, dict) and e.get("idx") == T for e in pl["p"]):
                    ok[0] = False
                return
            if kind == "read" and len(pl["p"]) == 1 and isinstance(pl["p"][0], dict) and "f" in pl["p"][0] and pl["p"][0]["f"] < arity:
                occ.append(pl)
            elif kind == "def" and not pl["p"]:
                pass
            else:
                ok[0] = False
        _walk_places(raw["blocks"], see)
        defs = [st for b in raw["blocks"] for st in b["st"] if st["s"] == "assign" and st["pl"]["l"] == T]
        if not ok[0] or not defs or any(st["pl"]["p"] or st["rv"]["rv"] != "agg" or st["rv"].get("agg") != "tuple" or len(st["rv"]["ops"]) != arity for st in defs):
            continue
        base = len(raw["locals"])
        raw["locals"] = raw["locals"] + ["bool"] * arity
        for b in raw["blocks"]:
            out = []
            for st in b["st"]:
                if st["s"] == "assign" and st["pl"]["l"] == T:
                    for k, a in enumerate(st["rv"]["ops"]):
                        out.append({"s": "assign", "pl": {"l": base + k, "p": []}, "rv": {"rv": "use", "op": a}, "line": st.get("line", 0), "sroa": T})
                else:
                    out.append(st)
            b["st"] = out
        for pl in occ:
            k = pl["p"][0]["f"]
            pl["l"], pl["p"] = base + k, []
        n += 1
    return n


def local_view(facts, fn):
    """A copy of `facts` in which `fn` is in local normal form: local closures that are called directly are inlined at their call
    sites and tuples of bools are split into their fields.  Everything else is shared with `facts`.  Returns `facts` itself if
    nothing in `fn` needs normalising."""
    import copy
    from .engine import Fn
    raw = copy.deepcopy(fn.raw)
    inl = _inline_local_closure_calls(facts, fn, raw)
    nsplit = _split_bool_tuples(raw)
    if not inl and not nsplit:
        return facts
    view = copy.copy(facts)
    view.F = dict(facts.F)
    view._callers = None
    fn2 = Fn(view, fn.id, raw)
    view.F[fn.id] = fn2
    # a local closure whose every use was a direct call is no longer a function of the program
    for cid in set(inl):
        g = facts.F[cid]
        used = any(closure_of_operand(fn2, a)[0] is g for _, t in fn2.live_calls() for a in t["args"]) or \
            any((t.get("resolved") == cid) for h in view.F.values() for _, t in h.calls())
        if not used:
            del view.F[cid]
    return view


# ------------------------------------------------------------------------------------------------ a fold keeps a success
def returns_true_given(g, local, max_states=20000):
    """Every normal return of `g` entered with bool `local` = true returns true (bool locals tracked through constants, copies,
    `!`, `|`, `&`; calls are unknown; a switch on a known bool follows one edge).  For a fold closure and its accumulator:
    a success recorded for an earlier element is never forgotten."""
    seen, work, n = set(), [(0, frozenset({(local, True)}))], 0
    while work:
        st = work.pop()
        if st in seen:
            continue
        seen.add(st)
        n += 1
        if n > max_states:
            return False
        bb, envf = st
        env = dict(envf)
        blk = g.blocks[bb]
        if blk["cleanup"]:
            continue

        def val(op):
            c = _const_bool(op)
            if c is not None:
                return c
            l = operand_local(op)
            return env.get(l) if l is not None else None
        for s in blk["st"]:
            if s["s"] != "assign" or s["pl"]["p"]:
                continue
            l, rv, v = s["pl"]["l"], s["rv"], None
            if rv["rv"] == "use":
                v = val(rv["op"])
            elif rv["rv"] == "unop" and rv["op"] == "Not":
                a = val(rv["a"])
                v = (not a) if a is not None else None
            elif rv["rv"] == "binop" and rv["op"] in ("BitOr", "BitAnd"):
                a, b2 = val(rv["a"]), val(rv["b"])
                if rv["op"] == "BitOr":
                    v = True if (a is True or b2 is True) else (False if (a is False and b2 is False) else None)
                else:
                    v = False if (a is False or b2 is False) else (True if (a is True and b2 is True) else None)
            if v is None:
                env.pop(l, None)
            else:
                env[l] = v
        t = blk["term"]
        if t["t"] == "return":
            if env.get(0) is not True:
                return False
            continue
        if t["t"] == "call" and not t["dest"]["p"]:
            env.pop(t["dest"]["l"], None)
        nxt = g.succ(bb)
        if t["t"] == "switch":
            l = operand_local(t["discr"])
            if l is not None and g.local_ty(l) == "bool" and l in env:
                tb, fb = g.bool_edges(bb)
                nxt = [x for x in nxt if x == (tb if env[l] else fb)]
        fe = frozenset(env.items())
        for x in nxt:
            work.append((x, fe))
    return True
