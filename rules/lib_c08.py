"""Helpers shared by c06.py and c08.py (built on engine.py only).

* `TypeWalk`   — resolve which ADT owns a named field in a place projection, by walking the
                 local's type string through the projection with the ADT table.
* `Flow`       — interprocedural "where does this value come from" over a set of crate-local
                 functions: engine's backward slice per function, parameters resolved at the
                 call sites (named functions) or at the adapter call that receives the closure
                 (closures; captured variables through the closure aggregate), closures that
                 appear on a slice are entered through their return value.  Origins are
                 *owner-qualified field reads*, string literals, callees and unresolved roots.
                 Optionally adds control dependence (the switches that decide whether a
                 definition on the slice executes, panicking arms not counted; post-dominator based,
                 so the exit test of an earlier loop is not a controller).
* `pslice`     — backward slice that keeps the residual projection through moves / references / tuples
                 (needed after helper inlining) and treats `&mut`-receiving calls and stores through
                 borrows as definitions (accumulators filled in loops); `Flow(.., precise=True)` uses it.
* `mut_borrows` / `mutators` / `map_stores` — which place a `&mut` local borrows, every call / store that
                 mutates through one, and `m[k] = v` in its insert / entry().or_insert* spellings.

Everything is an over-approximation used for presence / exact-set comparison against frozen
tables: an extra origin can raise an alarm, a missing one cannot be hidden by it.
"""
import json
import re

from .lib import operand_local


# --------------------------------------------------------------------------- type strings
def split_top(s, sep=","):
    out, depth, cur = [], 0, ""
    i = 0
    while i < len(s):
        c = s[i]
        if c in "<([{":
            depth += 1
        elif c in ">)]}":
            if c == ">" and i > 0 and s[i - 1] == "-":   # "->"
                pass
            else:
                depth -= 1
        if c == sep and depth == 0:
            out.append(cur.strip())
            cur = ""
        else:
            cur += c
        i += 1
    if cur.strip():
        out.append(cur.strip())
    return out


def adt_head(ty):
    """'a::B<X, Y>' -> ('a::B', ['X','Y']); non-ADT -> (ty, [])."""
    ty = ty.strip()
    i = ty.find("<")
    if i < 0 or not ty.endswith(">") or ty.startswith(("&", "(", "[", "*", "{", "<")):
        return ty, []
    return ty[:i], split_top(ty[i + 1:-1])


def strip_ref(ty):
    ty = ty.strip()
    m = re.match(r"^&\s*('[^ ]+\s+)?(mut\s+)?(.*)$", ty, re.S)
    if m:
        return m.group(3)
    m = re.match(r"^\*(const|mut)\s+(.*)$", ty, re.S)
    if m:
        return m.group(2)
    return None


def closure_upvars(ty):
    """Types of the captured variables of a closure type as printed by rustc:
    `Closure(DefId(..), [parent generics.., kind, sig, (upvar types..)])`."""
    ty = ty.strip()
    if not ty.startswith("Closure(") or not ty.endswith(")"):
        return None
    i = ty.find(", [")
    if i < 0:
        return None
    inner = ty[i + 3:-2] if ty.endswith("])") else None
    if inner is None:
        return None
    parts = split_top(inner)
    if not parts:
        return None
    tup = parts[-1].strip()
    if tup == "()":
        return []
    if tup.startswith("(") and tup.endswith(")"):
        return split_top(tup[1:-1])
    return None


def base_adt(ty):
    """ADT path at the bottom of references / Box / Option wrappers (best effort)."""
    cur = ty
    for _ in range(8):
        r = strip_ref(cur)
        if r is not None:
            cur = r
            continue
        h, a = adt_head(cur)
        if h in ("std::boxed::Box", "std::option::Option", "std::sync::Arc", "std::rc::Rc") and a:
            cur = a[0]
            continue
        return h
    return cur


class TypeWalk:
    def __init__(self, facts):
        self.facts = facts

    def _subst(self, fty, args):
        def rep(m):
            k = int(m.group(1))
            return args[k] if k < len(args) else m.group(0)
        return re.sub(r"[A-Za-z_][A-Za-z0-9_]*/#(\d+)", rep, fty)

    def _head(self, ty):
        """ADT path + generic args; ADTs nested in generic items print as `a::B<T/#0>::f::S`."""
        n = re.sub(r"/#\d+", "", ty.strip())
        if n in self.facts.adts:
            return n, []
        return adt_head(ty)

    def fields_of_place(self, fn, pl):
        """[(owner_adt|None, variant|None, field_name, field_index)] for each field projection."""
        ty = fn.local_ty(pl["l"])
        out = []
        variant = None
        for e in pl["p"]:
            if ty is None:
                if isinstance(e, dict) and "f" in e:
                    out.append((None, None, e.get("n"), e["f"]))
                continue
            if e == "*":
                r = strip_ref(ty)
                if r is None:
                    h, a = adt_head(ty)
                    r = a[0] if h == "std::boxed::Box" and a else None
                ty = r
                variant = None
            elif isinstance(e, dict) and "dc" in e:
                variant = e["dc"]
            elif isinstance(e, dict) and "f" in e:
                h, a = self._head(ty)
                adt = self.facts.adts.get(h)
                nty = None
                up = closure_upvars(ty) if adt is None else None
                if up is not None:
                    nty = up[e["f"]] if e["f"] < len(up) else None
                elif adt:
                    vs = adt["variants"]
                    v = None
                    if variant is not None:
                        v = next((x for x in vs if x["name"] == variant), None)
                    elif len(vs) >= 1:
                        v = vs[0]
                    if v and e["f"] < len(v["fields"]):
                        fld = v["fields"][e["f"]]
                        out.append((h, v["name"], fld["name"], e["f"]))
                        nty = self._subst(fld["ty"], a)
                    else:
                        out.append((None, None, e.get("n"), e["f"]))
                elif ty.startswith("(") and ty.endswith(")"):
                    parts = split_top(ty[1:-1])
                    if e["f"] < len(parts):
                        nty = parts[e["f"]]
                else:
                    out.append((None, None, e.get("n"), e["f"]))
                ty = nty
                variant = None
            else:           # index / subslice: element type
                m = re.match(r"^\[(.*?)(; .*)?\]$", ty or "")
                h, a = adt_head(ty or "")
                ty = m.group(1) if m else (a[0] if h == "std::vec::Vec" and a else None)
                variant = None
        return out


# --------------------------------------------------------------------------- precise backward slice
# engine.Fn.slice follows *definitions* of locals only.  Two idioms that behaviour-preserving
# refactorings introduce defeat it:
#   * `let t = helper(a, b); let (x, flag) = t;`   — after inlining, the tuple travels through a plain
#     move (`_33 = move _90; _32 = _33.1`), and the engine drops the `.1` at the move, so the flag
#     appears to depend on everything in the tuple;
#   * `let mut v = Vec::new(); for x in xs { v.push(f(x)); }`  instead of `xs.iter().map(f).collect()` —
#     the content of `v` arrives through `&mut v` passed to a call, which is not a definition of `v`.
# `pslice` is the engine's slice with (a) the residual projection carried through moves, references and
# aggregate operands and (b) *mutations*: a call that receives a `&mut` borrow rooted at a sliced place
# together with other arguments (push / insert / extend / clone_from ...), or a store through such a
# borrow, is a definition of that place; its other arguments are followed.  The result is an
# engine.Slice with one more attribute, `mut_blocks` (blocks of the mutating calls/stores).
from .engine import Slice, _proj_compatible, _projkey

# calls through `&mut acc` that change only the capacity of an accumulator, never its content: not a definition of `acc`
ACC_CAPACITY_ONLY = r"(Vec::<T, A>|VecDeque::<T, A>|String|IndexMap::<K, V, S>|IndexSet::<T, S>|HashMap::<K, V, S, A>|HashSet::<T, S, A>)::(reserve|reserve_exact|try_reserve|try_reserve_exact|shrink_to_fit|shrink_to)$"
ACC_OPAQUE = r"(Vec::<T>|VecDeque::<T>|String|IndexMap::<K, V>|IndexSet::<T>|HashMap::<K, V>|BTreeMap::<K, V>)::with_capacity(_and_hasher)?$"


def _pe_eq(a, b):
    if isinstance(a, dict) and isinstance(b, dict):
        if "f" in a and "f" in b:
            return a["f"] == b["f"]
        if "dc" in a and "dc" in b:
            return a["dc"] == b["dc"]
    return a == b


def _residual(q, proj):
    """Write through projection q, read through proj: the part of proj below q (None: unrelated shape)."""
    if len(q) <= len(proj) and all(_pe_eq(a, b) for a, b in zip(q, proj)):
        return proj[len(q):]
    return []


_REBORROW_CALLS = re.compile(r"(ops::DerefMut::deref_mut|convert::AsMut::as_mut|Option::<T>::as_mut|borrow::BorrowMut::borrow_mut|Option::<T>::as_deref_mut|Pin::<Ptr>::as_mut|Pin::<&'a mut T>::get_mut)$")


def mut_borrows(fn):
    """local -> [places it may mutably borrow] (through reborrows `&mut *r`, moves, deref_mut plumbing; a local
    assigned in several match arms — `let slot = match m { "GET" => &mut item.get, .. }` — has several)."""
    c = getattr(fn, "_c08_mutb", None)
    if c is not None:
        return c
    out = {}

    def add(l, tgt):
        k = json.dumps(tgt, sort_keys=True)
        cur = out.setdefault(l, {})
        if k in cur:
            return False
        cur[k] = tgt
        return True
    def propagate():
        changed = True
        rounds = 0
        while changed and rounds < 8:
            changed = False
            rounds += 1
            for bb, i, st in fn.stmts():
                if st["pl"]["p"]:
                    continue
                l = st["pl"]["l"]
                rv = st["rv"]
                tgts = []
                if rv["rv"] == "ref" and rv.get("mut"):
                    pl = rv["pl"]
                    if pl["p"] and pl["p"][0] == "*" and pl["l"] in out:
                        tgts = [{"l": base["l"], "p": list(base["p"]) + list(pl["p"][1:])} for base in out[pl["l"]].values()]
                    elif not (pl["p"] and pl["p"][0] == "*"):
                        tgts = [pl]
                    elif pl["l"] not in fn.defs() or 1 <= pl["l"] <= fn.argc:
                        tgts = [pl]      # reborrow of a `&mut` parameter / captured reference: the place behind it
                elif rv["rv"] == "use":
                    sl = operand_local(rv["op"])
                    if sl is not None and sl in out:
                        tgts = list(out[sl].values())
                for tgt in tgts:
                    if len(out.get(l, ())) < 16 and add(l, tgt):
                        changed = True
            for bb, t in fn.calls():
                if t["dest"]["p"] or not t["args"]:
                    continue
                if _REBORROW_CALLS.search(t.get("callee") or ""):
                    sl = operand_local(t["args"][0])
                    if sl is not None and sl in out:
                        for tgt in list(out[sl].values()):
                            if add(t["dest"]["l"], tgt):
                                changed = True
    propagate()
    # a reborrow through a reference that is itself opaque (the result of a call, a pattern binding): the target is
    # the place behind that reference, `(*r).field`
    more = False
    for bb, i, st in fn.stmts():
        rv = st["rv"]
        if not st["pl"]["p"] and rv["rv"] == "ref" and rv.get("mut") and st["pl"]["l"] not in out and rv["pl"]["p"] and rv["pl"]["p"][0] == "*":
            more = add(st["pl"]["l"], rv["pl"]) or more
    if more:
        propagate()
    res = {l: list(v.values()) for l, v in out.items()}
    fn._c08_mutb = res
    return res


def mutators(fn):
    """[(bb, kind, node, target place, value operands)] — calls taking a `&mut` borrow plus other arguments,
    and stores through a `&mut` borrow (one entry per possible target of the borrow)."""
    c = getattr(fn, "_c08_mutators", None)
    if c is not None:
        return c
    mb = mut_borrows(fn)
    out = []
    for blk in fn.blocks:
        if blk["cleanup"]:
            continue
        for st in blk["st"]:
            if st["s"] == "assign" and st["pl"]["p"] and st["pl"]["p"][0] == "*" and st["pl"]["l"] in mb:
                for base in mb[st["pl"]["l"]]:
                    out.append((blk["bb"], "store", st, {"l": base["l"], "p": list(base["p"]) + list(st["pl"]["p"][1:])}, _rv_operands(st["rv"])))
        t = blk["term"]
        if t["t"] != "call" or len(t["args"]) < 2:
            continue
        for k, a in enumerate(t["args"]):
            l = operand_local(a)
            if l is not None and l in mb:
                for base in mb[l]:
                    out.append((blk["bb"], "call", t, base, [x for j, x in enumerate(t["args"]) if j != k]))
    fn._c08_mutators = out
    return out


def pslice(fn, operand, stop_at_calls=None, mutations=True, max_nodes=8000):
    atoms, callees, seen, work = set(), [], set(), []
    mut_blocks = set()
    stop_rx = re.compile(stop_at_calls) if stop_at_calls else None
    opaque_rx = re.compile(ACC_OPAQUE)
    cap_rx = re.compile(ACC_CAPACITY_ONLY)
    muts = [m for m in (mutators(fn) if mutations else []) if not (m[1] == "call" and cap_rx.search(m[2].get("callee") or ""))]
    seen_calls = set()

    def push_pl(pl):
        work.append(json.dumps({"l": pl["l"], "p": pl["p"]}, sort_keys=True))

    def push_op(op, res=()):
        k = op.get("k")
        if k in ("copy", "move"):
            push_pl({"l": op["pl"]["l"], "p": list(op["pl"]["p"]) + list(res)})
        elif k == "const":
            if op.get("fn"):
                atoms.add(("fnitem", op["fn"]))
            elif op.get("path"):
                atoms.add(("const", op["path"], json.dumps(op.get("val"))))
            else:
                atoms.add(("lit", json.dumps(op.get("val")), op["ty"]))

    def call_def(bb, node, skip=None):
        callee = node.get("callee") or "<indirect>"
        if bb not in seen_calls:
            seen_calls.add(bb)
            callees.append((callee, bb, node))
        atoms.add(("call", callee, bb))
        if (stop_rx and stop_rx.search(callee)) or opaque_rx.search(callee):
            return
        for a in (node["args"] if skip is None else skip):
            push_op(a)
        if not node.get("callee") and node.get("callee_op"):
            push_op(node["callee_op"])

    if "k" in operand:
        push_op(operand)
    else:
        push_pl(operand)
    while work:
        item = work.pop()
        if item in seen:
            continue
        seen.add(item)
        if len(seen) > max_nodes:
            atoms.add(("budget",))
            break
        pl = json.loads(item)
        l, proj = pl["l"], pl["p"]
        if 1 <= l <= fn.argc:
            atoms.add(("param", l, tuple(_projkey(proj))))
        for e in proj:
            if isinstance(e, dict) and "idx" in e:
                push_pl({"l": e["idx"], "p": []})
        for bb, kind, node in fn.defs().get(l, []):
            if kind == "assign":
                rv = node["rv"]
                k = rv["rv"]
                q = node["pl"]["p"]
                if q and proj and not _proj_compatible(q, proj):
                    continue
                res = _residual(q, proj)
                if k == "use":
                    push_op(rv["op"], res)
                elif k in ("cast", "repeat"):
                    push_op(rv["op"])
                elif k == "unop":
                    atoms.add(("unop", rv["op"]))
                    push_op(rv["a"])
                elif k == "ref":
                    if res and res[0] == "*":
                        push_pl({"l": rv["pl"]["l"], "p": list(rv["pl"]["p"]) + list(res[1:])})
                    else:
                        push_pl(rv["pl"])
                elif k == "copyderef":
                    push_pl({"l": rv["pl"]["l"], "p": list(rv["pl"]["p"]) + list(res)})
                elif k in ("discr", "rawptr"):
                    push_pl(rv["pl"])
                    if k == "discr":
                        atoms.add(("discr",))
                elif k == "binop":
                    atoms.add(("binop", rv["op"]))
                    push_op(rv["a"])
                    push_op(rv["b"])
                elif k == "agg":
                    tag = rv.get("adt") or rv.get("def") or rv["agg"]
                    fsel, rest = None, []
                    other_variant = False
                    for n, e in enumerate(res):
                        if isinstance(e, dict) and "dc" in e:
                            if rv.get("agg") == "adt" and rv.get("variant") and e["dc"] is not None and e["dc"] != rv["variant"]:
                                other_variant = True    # `(x as AllOf).0` never reads what `x = Not(..)` stored (private carrier enums)
                            continue
                        if isinstance(e, dict) and "f" in e:
                            fsel, rest = e["f"], res[n + 1:]
                        break
                    if other_variant:
                        pass
                    elif fsel is not None and fsel < len(rv["ops"]):
                        push_op(rv["ops"][fsel], rest)
                    else:
                        atoms.add(("agg", tag, rv.get("variant")))
                        for o in rv["ops"]:
                            push_op(o)
                else:
                    atoms.add(("rv", k))
            elif kind == "call":
                call_def(bb, node)
            elif kind == "yield":
                atoms.add(("resume", bb))
        for bb, kind, node, tgt, vals in muts:
            if tgt["l"] != l:
                continue
            tp = tgt["p"]
            if tp and proj and not _proj_compatible(tp, proj):
                continue
            mut_blocks.add(bb)
            if kind == "call":
                call_def(bb, node, skip=vals)
            else:
                for o in vals:
                    push_op(o)
    sl = Slice(fn, atoms, callees, seen)
    sl.mut_blocks = mut_blocks
    return sl


# --------------------------------------------------------------------------- control dependence
def _postdom(fn):
    """Post-dominator sets (bitsets) over the non-cleanup CFG with panicking arms removed."""
    c = getattr(fn, "_c08_pdom", None)
    if c is not None:
        return c
    live = [b for b in sorted(fn.reachable(0)) if not fn.blocks[b]["cleanup"]]
    div = set(b for b in live if fn.is_diverging(b))
    nodes = [b for b in live if b not in div]
    nodeset = set(nodes)
    succ = {b: [s for s in fn.succ(b) if s in nodeset] for b in nodes}
    full = 0
    for b in nodes:
        full |= 1 << b
    pd = {b: (full if succ[b] else (1 << b)) for b in nodes}
    changed = True
    order = list(reversed(nodes))
    while changed:
        changed = False
        for b in order:
            if not succ[b]:
                continue
            acc = full
            for s_ in succ[b]:
                acc &= pd[s_]
            acc |= 1 << b
            if acc != pd[b]:
                pd[b] = acc
                changed = True
    fn._c08_pdom = (pd, succ)
    return fn._c08_pdom


def direct_controllers(fn, bb):
    """Switch blocks bb is directly control dependent on (Ferrante et al.): bb post-dominates one of the
    switch's successors but not the switch itself.  Panicking arms do not count as alternatives."""
    pd, succ = _postdom(fn)
    if bb not in pd:
        return []
    bit = 1 << bb
    out = []
    for sb, t in fn.switches():
        if sb == bb or sb not in pd:
            continue
        ss = succ[sb]
        if len(ss) < 2:
            continue
        if pd[sb] & bit:
            continue            # bb is executed whatever the switch decides
        if any(pd[s_] & bit for s_ in ss):
            out.append(sb)
    return out


def controllers(fn, bb):
    """Switch blocks that decide whether `bb` executes (transitive control dependence; the exit test of a
    loop that lies *before* bb does not decide it, the tests of enclosing loops and branches do)."""
    c = getattr(fn, "_c08_ctrl", None)
    if c is None:
        c = fn._c08_ctrl = {}
    if bb in c:
        return c[bb]
    seen, work, out = set(), [bb], []
    while work:
        x = work.pop()
        for sb in direct_controllers(fn, x):
            if sb not in seen and sb != bb:
                seen.add(sb)
                out.append(sb)
                work.append(sb)
    c[bb] = sorted(out)
    return c[bb]


# --------------------------------------------------------------------------- interprocedural origins
class Origins:
    def __init__(self):
        self.fields = set()      # (owner_adt, field_name)
        self.lits = set()        # string literals
        self.calls = set()       # callee paths
        self.roots = set()       # (fn id, param index) that could not be resolved further
        self.unresolved = set()  # field names whose owner could not be determined
        self.bool_lits = set()   # literal bool values on the slice
        self.aggs = set()        # (adt, variant) aggregates on the slice
        self.locals = set()      # (fn id, local) visited
        self.call_sites = set()  # (fn id, bb) of calls on the slice
        self.consts = set()      # (path, json of the evaluated value) of named constants on the slice

    def update(self, o):
        self.fields |= o.fields
        self.lits |= o.lits
        self.calls |= o.calls
        self.roots |= o.roots
        self.unresolved |= o.unresolved
        self.bool_lits |= o.bool_lits
        self.aggs |= o.aggs
        self.locals |= o.locals
        self.call_sites |= o.call_sites
        self.consts |= o.consts


class Flow:
    def __init__(self, facts, entries=(), stop_calls=None, root_params=(), precise=False):
        """entries: function ids whose parameters are roots (not resolved at callers);
        root_params: individual (function id, parameter index) roots;
        precise: use `pslice` (projection-carrying, mutation-aware) instead of the engine's slice."""
        self.facts = facts
        self.precise = precise
        self.tw = TypeWalk(facts)
        self.entries = set(entries)
        self.root_params = set(root_params)
        self.stop_calls = stop_calls
        self._callers = {}
        self._ctrl = {}
        self._site_ctx = {}      # closure id -> stack of the functions it was entered from (a closure of an inlined helper is built in several functions)

    # -- structure
    def closure_sites(self, g):
        """[(parent Fn, bb, aggregate stmt)] where closure g is built.  A closure defined inside a helper that
        was inlined is built in every function the helper was inlined into (raw["inlined"])."""
        pid = g.raw.get("parent")
        cands = []
        p = self.facts.F.get(pid)
        if p is not None:
            cands.append(p)
        cands += [h for h in self.facts.F.values() if pid in h.raw.get("inlined", []) and h is not p]
        out = []
        for p in cands:
            for bb, i, st in p.stmts():
                rv = st["rv"]
                if rv["rv"] == "agg" and rv.get("agg") in ("closure", "coroutine", "coroutine_closure") and rv.get("def") == g.raw["id"]:
                    out.append((p, bb, st))
        return out

    def closure_site(self, g):
        s = self.closure_sites(g)
        return s[0] if s else None

    def closure_receivers(self, p, st):
        """Calls in p that take the closure built by `st` as an argument: [(bb, term, arg index)]."""
        locs = {st["pl"]["l"]}
        changed = True
        while changed:
            changed = False
            for bb, i, s in p.stmts():
                if s["pl"]["p"] or s["pl"]["l"] in locs:
                    continue
                rv = s["rv"]
                if (rv["rv"] == "use" and operand_local(rv["op"]) in locs) or \
                        (rv["rv"] == "ref" and rv["pl"]["l"] in locs and all(e == "*" for e in rv["pl"]["p"])):    # `Fn::call(&f, (x,))`
                    locs.add(s["pl"]["l"])
                    changed = True
        out = []
        for bb, t in p.calls():
            for k, a in enumerate(t["args"]):
                if operand_local(a) in locs:
                    out.append((bb, t, k))
        return out

    def callers(self, f):
        if f.id not in self._callers:
            rx = "^" + re.escape(f.raw["id"]) + "$"
            self._callers[f.id] = [(g, bb, t) for g, bb, t in self.facts.callers_of(rx) if bb in g.reachable(0)]
        return self._callers[f.id]

    def is_closure(self, f):
        return f.raw["kind"] == "Closure"

    # -- origins
    def origins(self, fn, op, control=False, _seen=None, _depth=0):
        """Origins of an operand / place in fn."""
        seen = _seen if _seen is not None else set()
        key = (fn.id, json.dumps(op, sort_keys=True), control)
        out = Origins()
        if key in seen or _depth > 12:
            return out
        seen.add(key)
        sl = self.slice(fn, op)
        self._collect(fn, sl, out, control, seen, _depth)
        return out

    def slice(self, fn, op, stop_at_calls=None):
        stop = stop_at_calls or self.stop_calls
        if self.precise:
            return pslice(fn, op, stop_at_calls=stop)
        return fn.slice(op, stop_at_calls=stop)

    def _collect(self, fn, sl, out, control, seen, depth):
        for c, cbb, ct in sl.callees:
            out.call_sites.add((fn.id, cbb))
        for p in sl.places:
            pl = json.loads(p)
            out.locals.add((fn.id, pl["l"]))
            for owner, variant, name, idx in self.tw.fields_of_place(fn, pl):
                if owner is None:
                    if name not in (None, ""):
                        out.unresolved.add(name)
                else:
                    out.fields.add((owner, name))
        for a in sl.atoms:
            if a[0] in ("lit", "const"):
                v = a[1] if a[0] == "lit" else a[2]
                if a[0] == "const":
                    out.consts.add((a[1], a[2]))
                if v and v != "null":
                    try:
                        d = json.loads(v)
                    except Exception:
                        d = None
                    if isinstance(d, dict) and "str" in d:
                        out.lits.add(d["str"])
                    if a[0] == "lit" and a[2] == "bool" and isinstance(d, dict) and "int" in d:
                        out.bool_lits.add(bool(d["int"]))
            elif a[0] == "call":
                out.calls.add(a[1])
            elif a[0] == "agg":
                g = self.facts.F.get(a[1]) if isinstance(a[1], str) else None
                if g is not None and self.is_closure(g):
                    self._site_ctx.setdefault(g.id, []).append((fn.id, sl.locals()))
                    try:
                        out.update(self.origins(g, {"l": 0, "p": []}, control, seen, depth + 1))
                    finally:
                        self._site_ctx[g.id].pop()
                else:
                    out.aggs.add((a[1], a[2]))
            elif a[0] == "param":
                out.update(self._param(fn, a[1], a[2], seen, depth))
        for c, bb, t in sl.callees:
            if t.get("resolved"):
                out.calls.add(t["resolved"])
        if control:
            for bb in self.def_blocks(fn, sl):
                for sb in self._controllers(fn, bb):
                    out.update(self.origins(fn, fn.blocks[sb]["term"]["discr"], True, seen, depth + 1))

    def def_blocks(self, fn, sl):
        bbs = set()
        for l in sl.locals():
            for bb, kind, node in fn.defs().get(l, []):
                if not fn.blocks[bb]["cleanup"]:
                    bbs.add(bb)
        bbs |= set(getattr(sl, "mut_blocks", ()))
        return bbs

    def _controllers(self, fn, bb):
        k = (fn.id, bb)
        if k not in self._ctrl:
            self._ctrl[k] = controllers(fn, bb)
        return self._ctrl[k]

    def _param(self, fn, i, proj, seen, depth):
        """Where a parameter's value comes from (data only: control dependence is kept
        intra-procedural so that a sink's controlling predicates are those of its own function)."""
        out = Origins()
        if self.is_closure(fn) and (fn.raw["id"] in self.entries or (fn.raw["id"], i) in self.root_params):
            out.roots.add((fn.id, i))       # a closure named as entry: its item / captures are roots, not resolved at the adaptor
            return out
        if self.is_closure(fn):
            sites = self.closure_sites(fn)
            if not sites:
                out.roots.add((fn.id, i))
                return out
            came_from = (self._site_ctx.get(fn.id) or [None])[-1]
            if came_from is not None:
                here = [x for x in sites if x[0].id == came_from[0] and x[2]["pl"]["l"] in came_from[1]]
                sites = here or sites
            for p, bb, st in sites:
                if i == 1:
                    k = None
                    for e in proj:
                        if e.startswith("f"):
                            k = int(e[1:].split(":")[0])
                            break
                    ops = st["rv"]["ops"]
                    sel = [ops[k]] if (k is not None and k < len(ops)) else ops
                    for o in sel:
                        out.update(self.origins(p, o, False, seen, depth + 1))
                else:
                    recv = self.closure_receivers(p, st)
                    if came_from is not None and p.id == came_from[0]:
                        # one closure value handed to several calls (`let cast = |f| f as i64; a.map(cast); bound(b, c, cast)`):
                        # the item it is applied to is the one of the call through which the slice reached it
                        via = [r for r in recv if not r[1]["dest"]["p"] and r[1]["dest"]["l"] in came_from[1]]
                        recv = via or recv
                    if not recv:
                        out.roots.add((fn.id, i))
                    for cbb, t, k in recv:
                        for j, a in enumerate(t["args"]):
                            if j != k:
                                out.update(self.origins(p, a, False, seen, depth + 1))
        else:
            if fn.raw["id"] in self.entries or (fn.raw["id"], i) in self.root_params:
                out.roots.add((fn.id, i))
                return out
            cs = self.callers(fn)
            if not cs:
                out.roots.add((fn.id, i))
            for g, bb, t in cs:
                if i - 1 < len(t["args"]):
                    out.update(self.origins(g, t["args"][i - 1], False, seen, depth + 1))
        return out


# --------------------------------------------------------------------------- sink writes
def field_writes(fn, tw, adt_filter):
    """Every write into a field of an ADT accepted by adt_filter(adt_path) in fn:
    yields (adt, variant, field, kind, bb, value_operands) where kind is
      'agg'    aggregate operand,
      'assign' `local.field = v`,
      'call'   a call whose first argument is `&mut local.field` (clone_from, insert, extend ...):
               value operands = the other arguments.
    """
    out = []
    for bb, i, st in fn.stmts():
        rv = st["rv"]
        if rv["rv"] == "agg" and rv.get("agg") == "adt" and adt_filter(rv["adt"]):
            names = rv.get("fields") or []
            for k, o in enumerate(rv["ops"]):
                out.append((rv["adt"], rv.get("variant"), names[k] if k < len(names) else str(k), "agg", bb, [o]))
        if st["pl"]["p"]:
            fs = tw.fields_of_place(fn, st["pl"])
            if fs and fs[-1][0] and adt_filter(fs[-1][0]) and isinstance(st["pl"]["p"][-1], dict) and "f" in st["pl"]["p"][-1]:
                o = _rv_operands(rv)
                out.append((fs[-1][0], fs[-1][1], fs[-1][2], "assign", bb, o))
    # &mut local.field passed as first argument
    mut_refs = {}
    for bb, i, st in fn.stmts():
        rv = st["rv"]
        if rv["rv"] == "ref" and rv.get("mut") and not st["pl"]["p"] and rv["pl"]["p"]:
            fs = tw.fields_of_place(fn, rv["pl"])
            last = rv["pl"]["p"][-1]
            if fs and fs[-1][0] and adt_filter(fs[-1][0]) and isinstance(last, dict) and "f" in last:
                mut_refs[st["pl"]["l"]] = fs[-1]
    for bb, t in fn.calls():
        if not t["args"]:
            continue
        l = operand_local(t["args"][0])
        # follow one reborrow `_a = &mut (*_b)`
        hops = 0
        while l is not None and l not in mut_refs and hops < 3:
            nxt = None
            for dbb, kind, node in fn.defs().get(l, []):
                if kind == "assign" and node["rv"]["rv"] == "ref" and node["rv"]["pl"]["p"] == ["*"]:
                    nxt = node["rv"]["pl"]["l"]
                elif kind == "assign" and node["rv"]["rv"] == "use":
                    nxt = operand_local(node["rv"]["op"])
            l = nxt
            hops += 1
        if l in mut_refs and len(t["args"]) >= 2:
            f = mut_refs[l]
            out.append((f[0], f[1], f[2], "call", bb, t["args"][1:]))
    return out


def _rv_operands(rv):
    k = rv["rv"]
    if k in ("use", "cast", "repeat"):
        return [rv["op"]]
    if k == "unop":
        return [rv["a"]]
    if k == "binop":
        return [rv["a"], rv["b"]]
    if k in ("ref", "copyderef", "discr", "rawptr"):
        return [{"k": "copy", "pl": rv["pl"]}]
    if k == "agg":
        return list(rv["ops"])
    return []


# --------------------------------------------------------------------------- field-read census
def field_reads(facts, tw, field_name):
    """Every (fn, bb, owner_adt) where a place that projects a field called `field_name` is READ
    (rvalue operands, call arguments, switch discriminants); writes are not included."""
    out = []

    def places(o, acc):
        if isinstance(o, dict):
            if "l" in o and "p" in o and isinstance(o["p"], list):
                acc.append(o)
            for v in o.values():
                places(v, acc)
        elif isinstance(o, list):
            for v in o:
                places(v, acc)

    for f in facts.F.values():
        for blk in f.blocks:
            if blk["cleanup"]:
                continue
            acc = []
            for st in blk["st"]:
                if st["s"] == "assign":
                    places(st["rv"], acc)
                    # a write `x.visible = v` is not a read, but `x.visible.y = v` reads nothing either
            t = blk["term"]
            if t["t"] == "call":
                places(t["args"], acc)
            elif t["t"] == "switch":
                places(t["discr"], acc)
            for pl in acc:
                if not any(isinstance(e, dict) and e.get("n") == field_name for e in pl["p"]):
                    continue
                for owner, variant, name, idx in tw.fields_of_place(f, pl):
                    if name == field_name:
                        out.append((f, blk["bb"], owner))
    return out


def map_stores(flow, f, owner_field, adt_prefix="indexmap::"):
    """Stores `m[k] = v` into the map found in field `owner_field` = (adt, field): `m.insert(k, v)`,
    `m.entry(k).or_insert(v)` and `m.entry(k).or_insert_with(|| v)` alike.  Yields (bb, key operand, value operand)."""
    out = []
    for bb, t in f.live_calls(r"(indexmap::IndexMap::<K, V, S>|BTreeMap::<K, V, A>|HashMap::<K, V, S, A>)::insert$"):
        if len(t["args"]) >= 3 and owner_field in flow.origins(f, t["args"][0]).fields:
            out.append((bb, t["args"][1], t["args"][2]))
    for bb, t in f.live_calls(r"(indexmap::map::Entry::<'a, K, V>|btree_map::Entry::<'a, K, V, A>|hash_map::Entry::<'a, K, V, A>)::(or_insert|or_insert_with|or_insert_with_key|insert_entry)$"):
        if len(t["args"]) < 2:
            continue
        eo = flow.origins(f, t["args"][0])
        if owner_field not in eo.fields:
            continue
        for c, ebb, et in f.slice(t["args"][0]).calls(r"::entry$"):
            if len(et["args"]) >= 2:
                out.append((bb, et["args"][1], t["args"][1]))
                break
    return out


def root_of(facts, fn):
    """Outermost named function enclosing a closure; a closure defined in a helper that was inlined belongs to
    the function(s) the helper was inlined into (the first one, by id, is returned)."""
    cur = fn
    for _ in range(12):
        if cur.raw["kind"] != "Closure":
            return cur
        pid = cur.raw.get("parent")
        p = facts.F.get(pid)
        if p is None:
            hosts = sorted((h for h in facts.F.values() if pid in h.raw.get("inlined", [])), key=lambda h: h.id)
            if not hosts:
                return cur
            p = hosts[0]
        cur = p
    return cur


# --------------------------------------------------------------------------- naming closures of gen_openapi by role
GEN_ROLES = [("openapiv3::ParameterData", "parameters"), ("openapiv3::RequestBody", "request-body"), ("openapiv3::Header", "response-headers"),
             ("gen_openapi::ErrorResponse", "error-response"), ("openapiv3::Operation", "response")]


def gen_role(f):
    """Name gen_openapi or one of its closures by what it builds (closure numbers shift when code is added)."""
    built = set(st["rv"]["adt"] for bb, i, st in f.stmts() if st["rv"]["rv"] == "agg" and st["rv"].get("agg") == "adt")
    for adt, role in GEN_ROLES:
        if any(b.endswith(adt) for b in built):
            return role
    if f.raw["kind"] != "Closure":
        return "response"
    return f.id.split("gen_openapi")[-1].lstrip(":") or "gen_openapi"


# --------------------------------------------------------------------------- operation census on a value chain
class ChainOps:
    """Which operations lie between the schemars source and an OpenAPI sink operand: callees,
    arithmetic / comparison operators on the data slice, and comparisons that *control* a definition
    on the slice.  Closures on the slice and crate-local helper functions are entered (their body
    from the return value, parameters not resolved: the actual arguments are already on the caller's
    slice); the sink function's own parameters are followed to its callers."""

    def __init__(self, flow, no_descend=(), qualify=None):
        """qualify(fn, call terminator) -> a more specific name for the callee, or None: lets the caller tell apart uses of
        one std function that differ in meaning by their type arguments (`flatten` over an `Option<Vec<_>>` concatenates,
        over an iterator of `Option`s it filters)."""
        self.flow = flow
        self.facts = flow.facts
        self.no_descend = set(no_descend)
        self.qualify = qualify
        self._fn = {}

    def fn_ops(self, g, depth=0):
        if g.id in self._fn:
            return self._fn[g.id]
        self._fn[g.id] = set()          # cycle guard
        r = self._ops(g, {"l": 0, "p": []}, set(), depth + 1, resolve_params=False)
        self._fn[g.id] = r
        return r

    def ops(self, fn, op):
        return self._ops(fn, op, set(), 0, resolve_params=True)

    def _ops(self, fn, op, seen, depth, resolve_params):
        key = (fn.id, json.dumps(op, sort_keys=True))
        out = set()
        if key in seen or depth > 10:
            return out
        seen.add(key)
        sl = self.flow.slice(fn, op)
        for a in sl.atoms:
            if a[0] in ("binop", "unop"):
                out.add((a[0], a[1]))
            elif a[0] == "fnitem":
                # a function passed as a value (`.map(str::to_owned)`, `bound(a, b, std::convert::identity)`) is applied to the value
                g = self.facts.F.get(a[1])
                if g is None:
                    out.add(("call", a[1]))
                elif g.raw["id"] not in self.no_descend:
                    out.add(("call", a[1]))
                    out |= self.fn_ops(g, depth)
            elif a[0] == "agg":
                g = self.facts.F.get(a[1]) if isinstance(a[1], str) else None
                if g is not None and g.raw["kind"] == "Closure":
                    out |= self.fn_ops(g, depth)
            elif a[0] == "param" and resolve_params:
                out |= self._param_ops(fn, a[1], a[2], seen, depth)
        for c, bb, t in sl.callees:
            out.add(("call", (self.qualify and self.qualify(fn, t)) or c))
            g = self.facts.F.get(c)
            if g is not None and g.raw["id"] not in self.no_descend and g.raw["kind"] != "Closure":
                out |= self.fn_ops(g, depth)
        # comparisons that decide whether a definition on the slice executes
        for bb in self.flow.def_blocks(fn, sl):
            for sb in self.flow._controllers(fn, bb):
                d = self.flow.slice(fn, fn.blocks[sb]["term"]["discr"])
                for a in d.atoms:
                    if a[0] in ("binop", "unop"):
                        out.add(("ctrl-" + a[0], a[1]))
                for c, cbb, t in d.callees:
                    if re.search(r"cmp::(PartialOrd|PartialEq|Ord)::|::(is_empty|contains|starts_with|ends_with|is_some_and|is_none_or)$", c):
                        out.add(("ctrl-call", c))
        return out

    def _param_ops(self, fn, i, proj, seen, depth):
        out = set()
        fl = self.flow
        if fl.is_closure(fn):
            for p, bb, st in fl.closure_sites(fn):
                if i == 1:
                    k = None
                    for e in proj:
                        if e.startswith("f"):
                            k = int(e[1:].split(":")[0])
                            break
                    ops = st["rv"]["ops"]
                    for o in ([ops[k]] if (k is not None and k < len(ops)) else ops):
                        out |= self._ops(p, o, seen, depth + 1, True)
                else:
                    for cbb, t, k in fl.closure_receivers(p, st):
                        out.add(("call", (self.qualify and self.qualify(p, t)) or t.get("callee") or "<indirect>"))
                        for j, a in enumerate(t["args"]):
                            if j != k:
                                out |= self._ops(p, a, seen, depth + 1, True)
        else:
            if fn.raw["id"] in fl.entries:
                return out
            for g, bb, t in fl.callers(fn):
                if i - 1 < len(t["args"]):
                    out |= self._ops(g, t["args"][i - 1], seen, depth + 1, True)
        return out
