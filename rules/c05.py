"""C05 — version ranges mean what they say; conflict <=> shared version."""
import re

from . import absint as A
from .lib import PLUMBING, callee_allow, callers, status_const_of_ctor, try_edges, operand_local, closure_args_of_call, result_split

LEVEL = "proof"
TECHNIQUE = "static analysis: exhaustive abstract interpretation of the MIR of matches / overlaps_with / from_until / request_extract_version over all weak orders of their version operands (finite exact abstraction), plus slices and censuses for routing and constructors"
LEVEL_TEXT = ("Exhaustive decision, not sampling: ApiEndpointVersions::matches, ::overlaps_with, ::from_until and the header policy's ceiling test only *compare* "
              "semver::Version values, so their MIR is interpreted over every input shape x every weak order of the version symbols (the interpreter aborts, and the "
              "check fails, if the code does anything to a version other than compare it) and compared cell by cell with the property's specification: membership "
              "(from A: v>=A; until B: v<B; from-until: A<=v<B, exactly A when A=B; all), overlap <=> some version in both, in both argument orders, "
              "from_until Err iff until<earliest, header version accepted iff v<=max and 400 otherwise. Structural rules add: the ordered pair can only be built by "
              "from_until, every header-policy failure is for_bad_request (400), request_version returns the policy's result unmodified and that version is what "
              "lookup_route receives. Residue: semver::Version's own Ord (build metadata tie-break) and header text parsing are trusted. Also (R9 = C02.R4): the registration loop tests the new range against every stored range of that path and method.")
LEVEL_NOTE = ("Trusted base: rustc MIR construction, the extractor, the ~350-line interpreter; assumes semver::Version's PartialOrd is a total order consistent with "
              "semver precedence and that the version order has no least element that matters (the artificial minimum 0.0.0-0 is ignored for Until ranges).")
EXPLANATION = ("DECIDE rules interpret MIR over order types (obligations = cells = input shape x weak order); CHAIN/WHO-CONSTRUCTS/DOM rules over slices and dominators for the "
               "constructor census, the 400-typed failures of the header policy and the wiring of the resolved version into lookup_route.")
TRUSTED = ["rustc nightly MIR + const evaluation", "mirfacts extractor", "rules/absint.py interpreter", "semver::Version PartialOrd/PartialEq", "std Option/Result combinators (summarised)"]

ADT = "api_description::ApiEndpointVersions"
PAIR = "api_description::OrderedVersionPair"
KINDS = ("All", "From", "FromUntil", "Until")
SYM_TYPES = (r"^semver::Version$",)


def _vidx(ctx, name):
    a = ctx.ds.adts[ADT]
    for i, v in enumerate(a["variants"]):
        if v["name"] == name:
            return i
    raise KeyError(name)


def mk_range(ctx, kind, syms):
    vi = _vidx(ctx, kind)
    if kind == "All":
        return A.V_enum(ADT, vi, "All", [])
    if kind in ("From", "Until"):
        return A.V_enum(ADT, vi, kind, [A.V_sym(syms[0])])
    # field order of the pair from the ADT table
    fields = [f["name"] for f in ctx.ds.adts[PAIR]["variants"][0]["fields"]]
    vals = {"earliest": A.V_sym(syms[0]), "until": A.V_sym(syms[1])}
    pair = A.V_struct(PAIR, [vals[f] for f in fields])
    return A.V_enum(ADT, vi, "FromUntil", [pair])


def syms_of(kind, prefix):
    return {"All": [], "From": [prefix + "A"], "Until": [prefix + "B"], "FromUntil": [prefix + "A", prefix + "B"]}[kind]


def member(kind, syms, order, p):
    """The property's specification of membership (p is a rank)."""
    if kind == "All":
        return True
    if kind == "From":
        return p >= order[syms[0]]
    if kind == "Until":
        return p < order[syms[0]]
    a, b = order[syms[0]], order[syms[1]]
    return (a <= p < b) or (a == b and p == a)


def _shape_checks(ctx, R):
    a = ctx.ds.adts.get(ADT)
    ok = a is not None and [v["name"] for v in a["variants"]] == list(KINDS) or (a is not None and sorted(v["name"] for v in a["variants"]) == sorted(KINDS))
    ctx.check(R, "range-kinds", ok, "ApiEndpointVersions variants: %s" % ([v["name"] for v in a["variants"]] if a else None), nontrivial=False)
    return ok


def e1_matches(ctx):
    R = ctx.rule("C05.E1", "matches(range, Some(v)) equals the specified membership for every range kind and every weak order of {range bounds, v}; matches(_, None) is true", floor=19)
    f = ctx.need_fn(ctx.ds, R, r"^api_description::ApiEndpointVersions::matches$")
    if not _shape_checks(ctx, R):
        return
    cmp_types = set()
    for kind in KINDS:
        rs = syms_of(kind, "")
        for order in A.weak_orders(rs + ["v"]):
            if kind == "FromUntil" and order["A"] > order["B"]:
                continue  # unconstructible (E3)
            key = "matches(%s, Some(v)) under %s" % (kind, A.order_str(order))
            try:
                it = A.Interp(ctx.ds, order, sym_types=SYM_TYPES)
                selfv = A.Cell(mk_range(ctx, kind, rs))
                vcell = A.Cell(A.V_sym("v"))
                got = it.call_fn(f, [A.V_ref(selfv), A.V_some(A.V_ref(vcell))])
                cmp_types |= it.cmp_types
                want = member(kind, rs, order, order["v"])
                ctx.check(R, key, got == A.V_bool(want), "code=%s spec=%s (comparisons made: %s)" % (A.show(got), str(want).lower(), it.cmp_log), f)
            except A.LeavesFragment as e:
                ctx.check(R, key, False, "interpreter aborted: %s" % e, f)
        key = "matches(%s, None)" % kind
        try:
            it = A.Interp(ctx.ds, {s: i for i, s in enumerate(rs)}, sym_types=SYM_TYPES)
            got = it.call_fn(f, [A.V_ref(A.Cell(mk_range(ctx, kind, rs))), A.V_none()])
            ctx.check(R, key, got == A.V_bool(True), "code=%s spec=true" % A.show(got), f)
        except A.LeavesFragment as e:
            ctx.check(R, key, False, "interpreter aborted: %s" % e, f)
    ctx.notes["matches_compares_types"] = sorted(cmp_types)


def e2_overlaps(ctx):
    R = ctx.rule("C05.E2", "overlaps_with(r1, r2) is true iff some version belongs to both, for all 16 ordered kind pairs and all weak orders of their bounds (symmetric by construction of the spec)", floor=79)
    f = ctx.need_fn(ctx.ds, R, r"^api_description::ApiEndpointVersions::overlaps_with$")
    if ADT not in ctx.ds.adts or PAIR not in ctx.ds.adts:
        ctx.lost(R, "ADT tables for ApiEndpointVersions / OrderedVersionPair")
        return
    for k1 in KINDS:
        for k2 in KINDS:
            s1, s2 = syms_of(k1, "x"), syms_of(k2, "y")
            for order in A.weak_orders(s1 + s2):
                if k1 == "FromUntil" and order["xA"] > order["xB"]:
                    continue
                if k2 == "FromUntil" and order["yA"] > order["yB"]:
                    continue
                key = "overlaps_with(%s, %s) under %s" % (k1, k2, A.order_str(order))
                # witness candidates: every bound, plus a point below all of them (left-unbounded rays)
                cands = set(order.values()) | {-1}
                want = any(member(k1, s1, order, p) and member(k2, s2, order, p) for p in cands)
                try:
                    it = A.Interp(ctx.ds, order, sym_types=SYM_TYPES)
                    got = it.call_fn(f, [A.V_ref(A.Cell(mk_range(ctx, k1, s1))), A.V_ref(A.Cell(mk_range(ctx, k2, s2)))])
                    ctx.check(R, key, got == A.V_bool(want),
                              "code=%s spec=%s: %s" % (A.show(got), str(want).lower(),
                                                       "both ranges contain a common version but registration would accept both" if want and got != A.V_bool(want)
                                                       else ("disjoint ranges would be refused" if got != A.V_bool(want) else "agree")), f)
                except A.LeavesFragment as e:
                    ctx.check(R, key, False, "interpreter aborted: %s" % e, f)
    ctx.assume("the version order is treated as unbounded below: Until(B) is non-empty for every B (the artificial least version 0.0.0-0 is ignored)")


def e3_from_until(ctx):
    R = ctx.rule("C05.E3", "from_until(e, u) is Err iff u < e, otherwise Ok(FromUntil{earliest: e, until: u}); the ordered pair is constructed nowhere else and its fields are private", floor=5)
    f = ctx.need_fn(ctx.ds, R, r"^api_description::ApiEndpointVersions::from_until$")
    for order in A.weak_orders(["e", "u"]):
        key = "from_until(e,u) under %s" % A.order_str(order)
        try:
            it = A.Interp(ctx.ds, order, sym_types=SYM_TYPES)
            got = A.strip(it.call_fn(f, [A.V_sym("e"), A.V_sym("u")]))
            if order["u"] < order["e"]:
                ok = got[0] == "enum" and got[1] == "Err"
                want = "Err"
            else:
                fields = [x["name"] for x in ctx.ds.adts[PAIR]["variants"][0]["fields"]]
                vals = {"earliest": ("sym", "e"), "until": ("sym", "u")}
                want_v = ("enum", "Ok", (("enum", "FromUntil", (("struct", PAIR, tuple(vals[x] for x in fields)),)),))
                ok = got == want_v
                want = "Ok(FromUntil{earliest:e, until:u})"
            ctx.check(R, key, ok, "code=%s spec=%s" % (got[1] if got and got[0] == "enum" else got, want), f)
        except A.LeavesFragment as e:
            ctx.check(R, key, False, "interpreter aborted: %s" % e, f)
    # constructor census
    sites = []
    for g in ctx.ds.F.values():
        for bb, i, st in g.aggregates(r"^api_description::OrderedVersionPair$"):
            sites.append((g, bb))
    own = [f] + ctx.ds.descendants(f)    # from_until itself or a closure of it (`(a <= b).then(|| Pair {..})`)
    ctx.check(R, "pair-constructed-only-in-from_until", sites and all(any(g is h for h in own) for g, _ in sites),
              "aggregate sites of OrderedVersionPair: %s" % sorted(set(g.id for g, _ in sites)), f)
    priv = all(fl["vis"] != "Public" for fl in ctx.ds.adts[PAIR]["variants"][0]["fields"])
    ctx.check(R, "pair-fields-private", priv, "OrderedVersionPair field visibilities: %s" % [(fl["name"], fl["vis"].split("(")[0]) for fl in ctx.ds.adts[PAIR]["variants"][0]["fields"]], nontrivial=False)
    # nobody writes the pair's fields after construction
    writes = []
    for g in ctx.ds.F.values():
        for bb, i, st in g.stmts():
            for e in st["pl"]["p"]:
                if isinstance(e, dict) and e.get("n") in ("earliest", "until") and "OrderedVersionPair" in " ".join(g.raw["locals"]):
                    writes.append((g.id, bb))
    ctx.check(R, "pair-fields-never-assigned", not writes, "assignments through .earliest/.until: %s" % writes, f)


def e4_header_ceiling(ctx):
    R = ctx.rule("C05.E4", "request_extract_version returns Ok(v) iff parse_header gave Ok(v) and v <= max_version; every other outcome is Err built by for_bad_request (status 400)", floor=5)
    f = ctx.need_fn(ctx.ds, R, r"^<versioning::ClientSpecifiesVersionInHeader as versioning::DynamicVersionPolicy>::request_extract_version$")
    adt = "versioning::ClientSpecifiesVersionInHeader"
    fields = [x["name"] for x in ctx.ds.adts[adt]["variants"][0]["fields"]]
    # logging and formatting do not take part in the decision: opaque, and the log-level branch of a slog macro is explored both ways
    opaque = [r"^core::fmt::", r"^std::fmt::", r"^alloc::fmt::", r"^http::Request::<T>::headers$", r"^std::string::ToString::to_string$", r"^slog::", r"<slog::"]

    def run(order, parse_result):
        summ = {
            "versioning::parse_header": lambda it, argv, t: parse_result,
            "error::HttpError::for_bad_request": lambda it, argv, t: A.V_opaque("HttpError::for_bad_request"),
        }

        def once(ch):
            it = A.Interp(ctx.ds, order, summaries=summ, opaque_callees=opaque, sym_types=SYM_TYPES, choices=ch)
            vals = {"name": A.V_opaque("header-name"), "max_version": A.V_sym("max")}
            selfv = A.Cell(A.V_struct(adt, [vals[x] for x in fields]))
            return it, A.strip(it.call_fn(f, [A.V_ref(selfv), A.V_ref(A.Cell(A.V_opaque("request"))), A.V_ref(A.Cell(A.V_opaque("log")))]))
        outs = A.explore(once)
        first = outs[0]
        if any(o != first for o in outs):
            raise A.LeavesFragment("the outcome depends on a branch outside the fragment (a log level): %s" % sorted(set(map(str, outs)))[:3])
        return first
    for order in A.weak_orders(["v", "max"]):
        key = "header version v vs max under %s" % A.order_str(order)
        try:
            got = run(order, A.V_ok(A.V_sym("v")))
            if order["v"] <= order["max"]:
                ok = got == ("enum", "Ok", (("sym", "v"),))
                want = "Ok(v)"
            else:
                ok = got == ("enum", "Err", (("opaque", "HttpError::for_bad_request"),))
                want = "Err(for_bad_request)"
            ctx.check(R, key, ok, "code=%s spec=%s" % (got, want), f)
        except A.LeavesFragment as e:
            ctx.check(R, key, False, "interpreter aborted: %s" % e, f)
    try:
        got = run({"max": 0}, A.V_err(A.V_opaque("parse-error")))
        ctx.check(R, "parse failure propagates", got == ("enum", "Err", (("opaque", "parse-error"),)), "code=%s spec=Err(parse-error)" % (got,), f)
    except A.LeavesFragment as e:
        ctx.check(R, "parse failure propagates", False, "interpreter aborted: %s" % e, f)
    # parse_header: every Err is for_bad_request; Ok payload comes from str::parse::<semver::Version> of the named header
    ph = ctx.need_fn(ctx.ds, R, r"^versioning::parse_header$")
    # decided by interpretation over every combination of (header present?, ASCII?, parses?), with http/std leaves stubbed
    got_names = []
    chain = []

    def run(ch):
        def get(it, argv, t):
            got_names.append(it.deref_all(argv[1]) if len(argv) > 1 else None)
            return [A.V_none(), A.V_some(A.V_ref(A.Cell(A.V_opaque("header-value"))))][it.choose(2)]

        def to_str(it, argv, t):
            chain.append(("to_str", it.deref_all(argv[0])))
            return [A.V_err(A.V_opaque("ToStrError")), A.V_ok(A.V_opaque("text"))][it.choose(2)]

        def parse(it, argv, t):
            chain.append(("parse", it.deref_all(argv[0])))
            return [A.V_err(A.V_opaque("ParseError")), A.V_ok(A.V_sym("v"))][it.choose(2)]
        summ = {
            "http::HeaderMap::<T>::get": get,
            "http::HeaderValue::to_str": to_str,
            "core::str::<impl str>::parse": parse,
            "std::str::<impl str>::parse": parse,
            # `T::from_str(s)` is what `s.parse::<T>()` calls
            "std::str::FromStr::from_str": parse,
            "core::str::FromStr::from_str": parse,
            "error::HttpError::for_bad_request": lambda it, argv, t: A.V_opaque("HttpError::for_bad_request"),
        }
        it = A.Interp(ctx.ds, {"v": 0}, summaries=summ, opaque_callees=[r"^core::fmt::", r"^std::fmt::", r"^alloc::fmt::", r"^std::string::ToString::to_string$"], choices=ch)
        try:
            out = A.strip(it.call_fn(ph, [A.V_ref(A.Cell(A.V_opaque("headers"))), A.V_ref(A.Cell(A.V_opaque("header-name")))]))
        except A.LeavesFragment as e:
            out = "interpreter aborted: %s" % e
        return it, (tuple(it.taken), out)
    try:
        outs = A.explore(run)
    except A.LeavesFragment as e:
        outs = [((), "interpreter aborted: %s" % e)]
    E400 = ("enum", "Err", (("opaque", "HttpError::for_bad_request"),))
    OKV = ("enum", "Ok", (("sym", "v"),))
    nerr = sum(1 for ch, o in outs if o == E400)
    for ch, o in outs:
        want = OKV if ch == (1, 1, 1) else E400
        ctx.check(R, "parse_header-outcome:%s" % ",".join(n if x else "not-" + n for n, x in zip(("present", "ascii", "parses"), ch)),
                  o == want, "code=%s spec=%s" % (o, want), ph)
    ctx.check(R, "parse_header-reads-the-named-header", bool(got_names) and all(x == ("opaque", "header-name") for x in got_names), "headers.get(..) key on all interpreted calls: %s" % sorted(set(map(str, got_names))), ph)
    ctx.check(R, "parse_header-has-three-failure-exits", nerr >= 3 and OKV in [o for _, o in outs], "interpreted outcomes: %d failing with 400 (missing, non-ASCII, unparsable), one Ok(v)" % nerr, ph)
    st = status_const_of_ctor(ctx.ds, "for_bad_request")
    ctx.check(R, "for_bad_request-is-400", st == {400}, "status constants named in for_bad_request: %s" % sorted(st or []), nontrivial=False)
    okc = bool(chain) and all(x == ("to_str", ("opaque", "header-value")) or x == ("parse", ("opaque", "text")) for x in chain)
    # parse_header is generic in the parsed type: str::parse::<T> with T instantiated to semver::Version by the policy
    parses = [t for g in [ph] + ctx.ds.descendants(ph) for bb, t in g.live_calls(r"str::<impl str>::parse$|str::FromStr::from_str$")]
    inst = [t for bb, t in f.live_calls(r"^versioning::parse_header$")]
    okp = bool(parses) and bool(inst) and all(any("semver::Version" in g for g in t.get("gargs", [])) for t in inst) and \
        all(any(g.startswith("T/") or "semver::Version" in g for g in t.get("gargs", [])) for t in parses)
    ctx.check(R, "parse_header-parses-semver-of-named-header", okp and okc, "Ok payload from str::parse::<semver::Version>=%s applied to to_str() of the fetched header value=%s" % (okp, okc), ph)


def r5_routed_at_that_version(ctx):
    R = ctx.rule("C05.R5", "request_version returns the dynamic policy's result through map(Some) only; http_request_handle hands exactly that version to lookup_route and its `?` dominates lookup and handlers", floor=4)
    rv = ctx.need_fn(ctx.ds, R, r"^versioning::VersionPolicy::request_version$")
    # request_version is decided by interpretation: for each policy variant and each outcome of the dynamic policy
    # (stubbed), over every resolution of the branches the fragment does not model (log-level tests)
    adt = "versioning::VersionPolicy"
    seen_req = []

    def outcomes(variant, policy_result):
        def run(ch):
            def policy(it, argv, t):
                seen_req.append(it.deref_all(argv[1]) if len(argv) > 1 else None)
                return policy_result()
            it = A.Interp(ctx.ds, {"v": 0}, summaries={"versioning::DynamicVersionPolicy::request_extract_version": policy},
                          opaque_callees=[r"^slog::", r"^core::fmt::", r"^std::fmt::", r"<slog::"], sym_types=SYM_TYPES, choices=ch)
            selfv = A.V_enum(adt, it.vidx(adt, variant), variant, [A.V_ref(A.Cell(A.V_opaque("policy")))] if variant == "Dynamic" else [])
            try:
                return it, A.strip(it.call_fn(rv, [A.V_ref(A.Cell(selfv)), A.V_ref(A.Cell(A.V_opaque("request"))), A.V_ref(A.Cell(A.V_opaque("log")))]))
            except A.LeavesFragment as e:
                return it, "interpreter aborted: %s" % e
        try:
            return A.explore(run)
        except A.LeavesFragment as e:
            return ["interpreter aborted: %s" % e]
    cases = [("unversioned-is-Ok(None)", "Unversioned", None, ("enum", "Ok", (("enum", "None", ()),))),
             ("policy-Ok(v)-is-Ok(Some(v))", "Dynamic", lambda: A.V_ok(A.V_sym("v")), ("enum", "Ok", (("enum", "Some", (("sym", "v"),)),))),
             ("policy-Err(e)-is-Err(e)", "Dynamic", lambda: A.V_err(A.V_opaque("policy-error")), ("enum", "Err", (("opaque", "policy-error"),)))]
    for key, variant, res, want in cases:
        got = outcomes(variant, res)
        ctx.check(R, key, bool(got) and all(g == want for g in got), "request_version on %s: %d path(s), outcomes %s, spec %s" % (variant, len(got), sorted(set(map(str, got)))[:3], want), rv)
    ctx.check(R, "policy-sees-this-request", bool(seen_req) and all(x == ("opaque", "request") for x in seen_req),
              "the dynamic policy is called with request_version's own `request` on all %d interpreted calls" % len(seen_req), rv)
    # normalised view: `request_version(..).and_then(|v| lookup_route(.., v))` is the same program as `let v = request_version(..)?; lookup_route(.., v)?`
    top = ctx.need_fn(ctx.dsn, R, r"^server::http_request_handle$")
    hb = ctx.dsn.body_of(top)
    rvc = hb.live_calls(r"VersionPolicy::request_version$")
    look = hb.live_calls(r"HttpRouter::<Context>::lookup_route$")
    if len(rvc) != 1 or len(look) != 1:
        ctx.lost(R, "request_version / lookup_route calls in http_request_handle")
        return
    vbb, vt = rvc[0]
    lbb, lt = look[0]
    sp = result_split(hb, vt["dest"]["l"])
    if not sp:
        ctx.lost(R, "the Ok/Err split (`?` or match) of request_version's result")
        return
    te = {"switch_bb": sp["switch_bb"], "cont": sp["ok"], "brk": sp["err"], "dest": sp["payload"]}
    vs = hb.slice(lt["args"][3], stop_at_calls=r"VersionPolicy::request_version$")
    badv = callee_allow(vs, PLUMBING + [r"VersionPolicy::request_version$"])
    ctx.check(R, "lookup-version-is-the-resolved-version", vs.has_call(r"VersionPolicy::request_version$") and not badv and vs.touches_local(te["dest"]),
              "lookup_route's version argument derives from request_version(..)? via %s" % ([b[0] for b in badv] or "as_ref only"), (hb, lbb))
    ctx.check(R, "version-error-precedes-lookup", hb.edge_dominates(te["switch_bb"], te["cont"], lbb) and lbb not in hb.reachable(te["brk"]),
              "lookup_route is dominated by the Continue edge of request_version(..)?; the Break edge reaches no lookup", (hb, lbb))
    rq = hb.slice(vt["args"][1])
    names = set(hb.local_by_name("request"))
    ctx.check(R, "version-from-this-request", bool(rq.locals() & names) if names else True, "request_version reads the `request` local of this invocation", (hb, vbb))



def r8_header_policy_cannot_panic(ctx):
    """Added after adversary change C05-D (an `expect` in parse_header's not-ASCII error branch: a version header with
    invalid UTF-8 kills the request task instead of being answered 400)."""
    from .lib_c10 import panic_sites
    R = ctx.rule("C05.R8", "no potential panic site (explicit panic, unwrap/expect family, indexing, overflow/bounds assertion) in the header version policy: "
                 "request_version, request_extract_version, parse_header and their closures — every failure there is an Err value", floor=3)
    roots = []
    for pat in (r"^versioning::VersionPolicy::request_version$", r"^<versioning::ClientSpecifiesVersionInHeader as versioning::DynamicVersionPolicy>::request_extract_version$", r"^versioning::parse_header$"):
        f = ctx.ds.one(pat)
        if f is None:
            ctx.lost(R, "function /%s/" % pat)
            continue
        roots.append(f)
    for f in roots:
        fns = [f] + ctx.ds.descendants(f)
        sites = []
        for g in fns:
            for kind, what, exp, bb in panic_sites(g):
                # slog's record macros contain no panics; format_args machinery is not a panic site either
                sites.append((g, kind, what, bb))
        ctx.check(R, "panic-free:%s" % f.id.split("::")[-1], not sites,
                  "potential panic sites in %s and its %d closure(s): %s" % (f.id, len(fns) - 1, [(k, w.split("::")[-1]) for g, k, w, b in sites] or "none"),
                  (sites[0][0], sites[0][3]) if sites else f)


def r9_every_existing_range_is_tested_against_the_new_one(ctx):
    """`conflicting if and only if some version belongs to both, whichever is registered first`: the registration loop tests the NEW range
    against EVERY range already stored for that path and method.  This is C02.R4, re-evaluated here (adversary change C05-K: the list was
    split with split_first() after the push, so the first-registered range was compared with the others and an overlap between the second
    and third went unnoticed)."""
    from . import c02
    from .lib_c01 import Renamed
    c02.r4_version_conflicts(Renamed(ctx, "C05.R9", "insert refuses exactly when overlaps_with(existing, new) holds for some stored range of that path and method, each stored range being tested against the new one"))


RULES = [("C05.R9", r9_every_existing_range_is_tested_against_the_new_one), ("C05.R8", r8_header_policy_cannot_panic), ("C05.E1", e1_matches), ("C05.E2", e2_overlaps), ("C05.E3", e3_from_until), ("C05.E4", e4_header_ceiling), ("C05.R5", r5_routed_at_that_version)]
