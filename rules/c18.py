"""C18 — hostile or broken traffic cannot take the server down."""
import os
import re
from collections import Counter

from .core import VERIF
from .lib import PLUMBING, callee_allow, callers, operand_local, status_const_of_ctor
from .lib_c13 import site_what
from .lib_c18 import census_sites, holds_variant_at, site_cannot_fail
from .lib_c16 import (PANIC_KINDS_TEXT, SELECT_OUT, SERVE, SPAWN, accept_arms, after_await, await_payloads, awaits, discr_switches, exits_only_on_close_signal,
                      load_panic_table, norm_fid, owner_fn, result_switches_of, return_defs, rta_region, server_task, slice_has_call_at, variant_edge, variant_flow)

LEVEL = "other"
TECHNIQUE = "static analysis: path rules on the MIR of the accept loops and the request wrapper (error edges never leave the loop, never reach a return or a panic), forward flow of connection futures, closed census of potential panic sites over the accept-path and request-path call-graph regions against a reviewed table"
LEVEL_TEXT = ("Decides on all paths of the MIR (current tree): HttpAcceptor::accept returns only on the Ok edge of TcpListener::accept().await and every Err path loops back without a "
              "return or a panic; the TLS stream only ever yields Ok(conn) -- an Ok(..) aggregate, or a Result tested on every path from its definition to the yield with the Err edge excluded -- and ends only through select!'s all-disabled arm, so a failed negotiation neither ends nor poisons it; both accept "
              "loops of the server task are left only on the close signal; every connection future and every TLS negotiation is handed to tokio::spawn / FuturesUnordered and never awaited "
              "by the accept loop; http_request_handle_wrap yields Ok(response) on every path, turning the error arm into HandlerError::into_response; and every potential panic site "
              "(" + PANIC_KINDS_TEXT + ") in the call-graph regions of the accept path and of http_request_handle_wrap is on a reviewed table with its multiplicity.  "
              "The two outcomes of tcp.accept() are told apart by exploring the (helper-spliced, normalised) body under the hypotheses `it produced Ok` / `it produced Err`, the close signal by exploring the server task under `the select! resolved to branch i`, so where and by which test the cases are separated does not matter; a census site that is not on the table is still accepted when its function, evaluated on every value of its field-less enum parameters against the constant tables of the tree, never presents the panicking variant there (a lookup in a constant table with an entry for every variant).  "
              "Not decided: hyper's parser robustness and the validity of the bytes it emits, tokio's per-task panic isolation, what third-party callees (serde impls of consumer types, "
              "handlers) do; the region follows calls resolved to crate-local code, crate-local trait dispatch, and foreign-trait impls of types instantiated in the region.")
LEVEL_NOTE = "Trusts rustc MIR, the extractor, tokio::spawn panic isolation, tokio::select! semantics (a branch whose pattern does not match is disabled), async-stream, hyper."
EXPLANATION = ("Rules over the MIR of server::HttpAcceptor::accept, HttpsAcceptor::new_stream, the server task in HttpServerStarter::start, http_request_handle_wrap, Service::call and the "
               "From<hyper::Error>/From<http::Error> impls from the current tree: DOM/PASS (Err edges loop back; returns only under the Ok edge / the select! Disabled arm), forward flow "
               "(connection and negotiation futures reach only spawn / FuturesUnordered::push), TABLE (wrap's result arms -> Ok(response)), CENSUS (panic sites in two call-graph regions "
               "vs tables/c18_panics.txt, keyed (region, source-level function item, kind, what) with multiplicity, evaluated on the normalised view -- `what` is the tested value and panicking variant "
               "(`Option::None <- origin`) for a site that tests an Option/Result, whatever its spelling (unwrap / expect / let-else / match arm / combinator closure), else the callee or assert kind; "
               "closures, async blocks and inlined private helpers count "
               "with the function they are written in; foreign-macro expansions bucketed per function; debug_assert! bodies, match arms of an enum variant the scrutinee provably cannot "
               "hold at that point, the overflow assertion of `len(a) + len(b)` -- two object lengths cannot wrap usize -- and full-range indexing `x[..]` of a slice / array / str / String / Vec are not sites; "
               "a site that is not on the table is accepted when evaluating its function on every value of its field-less enum parameters shows the tested value is never the panicking variant).")
TRUSTED = ["rustc nightly MIR + const evaluation", "mirfacts extractor", "rules/engine.py + rules/lib_c16.py + rules/lib_c18.py + rules/lib_c13.py (what a panic site tests) + rules/lib_c10.py (_sum_of_two_lengths) + rules/absint.py / rules/lib_c07.py StrInterp (evaluation of constant-table lookups)", "tables/c18_panics.txt (each line reviewed)", "tokio / hyper / async-stream semantics"]

TABLE = os.path.join(VERIF, "tables", "c18_panics.txt")
_FWD_PLUMBING = r"UpgradeableConnection::<'_, I, S, E>::into_owned$|graceful::GracefulShutdown::watch$|^tokio::spawn$|mem::drop$"
_NEG_PLUMBING = r"TryFutureExt::map_ok$|TryFutureExt::map_err$|FutureExt::map$|TryFutureExt::and_then$|FutureExt::inspect$|TryFutureExt::inspect_(ok|err)$|FuturesUnordered::<Fut>::push$|FutureExt::boxed$|boxed::Box::<T>::pin$"


def _stream_coroutine(ctx, R):
    ns = ctx.need_fn(ctx.ds, R, r"^server::HttpsAcceptor::new_stream$")
    cs = [g for g in ctx.ds.descendants(ns) if g.raw.get("coroutine") and g.live_calls(r"async_stream::yielder::Sender::<T>::send$")]
    if len(cs) != 1:
        ctx.lost(R, "the stream! coroutine of HttpsAcceptor::new_stream (%d found)" % len(cs))
        return None
    return cs[0]


_DUR_CONST = [r"time::Duration::from_(millis|secs|micros|nanos)$", r"time::Duration::new$"]


def _is_const_duration(f, op):
    sl = f.slice(op)
    return not sl.params() and not callee_allow(sl, PLUMBING + _DUR_CONST) and not [a for a in sl.atoms if a[0] in ("binop", "unop")]


def _bounded_duration(f, op, depth=0):
    """The Duration operand is a constant, or every definition of it (loop-carried ones included, through whole-value moves) is a
    constant or the result of `min(x, constant)` / `clamp(x, constant, constant)`."""
    if _is_const_duration(f, op):
        return True
    l = operand_local(op)
    if l is None or depth > 6 or (op.get("pl") or {}).get("p"):
        return False
    ds_ = [d for d in f.defs().get(l, []) if d[0] in f.reachable(0) and not f.blocks[d[0]]["cleanup"]]
    if not ds_ or 1 <= l <= f.argc:
        return False
    for bb, kind, node in ds_:
        if kind == "call":
            c = node.get("callee") or ""
            if re.search(r"cmp::Ord::min$|cmp::min$", c) and len(node["args"]) == 2 and any(_is_const_duration(f, a) for a in node["args"]):
                continue
            if re.search(r"cmp::Ord::clamp$", c) and len(node["args"]) == 3 and _is_const_duration(f, node["args"][2]):
                continue
            if any(re.search(p, c) for p in _DUR_CONST) and all(_is_const_duration(f, a) or not f.slice(a).params() and not f.slice(a).callees for a in node["args"]):
                continue
            return False
        if kind != "assign" or node["pl"]["p"]:
            return False
        rv = node["rv"]
        if rv["rv"] == "use":
            if not _bounded_duration(f, rv["op"], depth + 1):
                return False
        else:
            return False
    return True


def r1_accept_tolerates_errors(ctx):
    R = ctx.rule("C18.R1", "accept loops tolerate per-socket errors: HttpAcceptor::accept returns only on the Ok edge of tcp.accept().await and its Err paths loop back without return or "
                 "panic; the TLS stream yields only Ok(conn) and ends only when select! has no enabled branch; the server task leaves its accept loops only on the close signal", floor=10)
    # normalised view, and the two outcomes of `tcp.accept().await` told apart by hypothesis: the body (with a private `try_accept`-style
    # helper spliced in) is explored once under "the accept produced Ok" and once under "it produced Err" (lib_c16.variant_flow follows only
    # the edges such an execution can take: through a match / if let on the io::Result, through the Option a helper makes of it, through
    # flags), so it does not matter in which function or by which test the error is separated from the connection
    D = ctx.dsn
    top = ctx.need_fn(D, R, r"^server::HttpAcceptor::accept$")
    acc = D.body_of(top)
    calls = acc.live_calls(r"tokio::net::TcpListener::accept$")
    if len(calls) != 1:
        ctx.lost(R, "the single TcpListener::accept call in HttpAcceptor::accept (%d found)" % len(calls))
        return
    abb = calls[0][0]
    aws = awaits(acc, fut_call_bb=abb)
    if len(aws) != 1 or aws[0]["ready"] is None:
        ctx.lost(R, "the await of tcp.accept()")
        return
    aw = aws[0]
    received = set(await_payloads(acc, aw))

    def got(i):
        return lambda pl: i if (pl["l"] in received and not pl["p"]) else None
    f_ok, f_err = variant_flow(acc, assume=got(0), nested=True), variant_flow(acc, assume=got(1), nested=True)
    only_err = f_err.reach - f_ok.reach
    if not received or not f_ok.used or not f_err.used or not only_err:
        ctx.lost(R, "a test of the io::Result of tcp.accept().await that separates the accepted connection from the error (tests decided by it: %d; blocks run only on an error: %d)" % (f_err.used, len(only_err)))
        return
    esite = (acc, min(only_err))
    rets = acc.returns()
    ok = bool(rets) and all(r in f_ok.reach and r not in f_err.reach for r in rets)
    ctx.check(R, "tcp-accept-returns-only-on-ok", ok, "returns of HttpAcceptor::accept: %d, all reached only when tcp.accept().await produced Ok: %s" % (len(rets), ok), (acc, aw["poll_bb"]))
    leaves = [r for r in rets if r in f_err.reach]
    loops_back = abb in acc.reachable(aw["ready"], avoid_edges=f_err.dead)
    ctx.check(R, "tcp-accept-error-loops-back", not leaves and loops_back, "when the accept produced Err: returns reachable=%d; the next tcp.accept() is reachable=%s" % (len(leaves), loops_back), esite)
    ps = [(k, w) for k, w, bucket, b in census_sites(acc) if b in only_err]
    ctx.check(R, "tcp-accept-error-path-cannot-panic", not ps, "potential panic sites run only when the accept produced Err: %s" % ps, esite)
    # Added after adversary change C18-I (an "exponential backoff" whose clamp was written `.max(ACCEPT_RETRY_MAX)`: the pause doubles without
    # bound, so after a descriptor-exhausting flood of T seconds the listener stays deaf for about another T): every pause on the error
    # path is bounded by a constant -- the duration is a constant, or the last thing done to it is `min(_, constant)` / `clamp(_, c, c)`
    sleeps = [(b, t) for b, t in acc.live_calls(r"^tokio::time::sleep$|^tokio::time::sleep_until$|^tokio::time::timeout$") if b in f_err.reach]
    unbounded = [b for b, t in sleeps if not _bounded_duration(acc, t["args"][0])]
    ctx.check(R, "retry-pause-is-bounded", not unbounded, "pauses on the error path of tcp.accept(): %d, of which not bounded by a constant: %d" % (len(sleeps), len(unbounded)),
              (acc, unbounded[0]) if unbounded else esite, nontrivial=bool(sleeps))
    # Added after adversary change C18-L (the same 100 ms pause was added to the arm of the TLS stream that swallows a failed handshake:
    # that arm runs in the one task that accepts sockets and delivers finished negotiations, so every broken handshake made the HTTPS
    # front end deaf for 100 ms and a trickle of ten per second wedged it): the accept path pauses only where accept(2) itself failed
    others = [(f2, b2) for f2, b2, t2 in callers(D, r"^tokio::time::sleep$|^tokio::time::sleep_until$|^std::thread::sleep$")
              if not f2.id.startswith("test_util") and not (f2 is acc and b2 in f_err.reach)]
    ctx.check(R, "no-other-pause-on-the-accept-path", not others, "sleep calls outside the error path of tcp.accept(): %s" % ([f2.id for f2, _ in others] or "none"),
              others[0] if others else esite, nontrivial=False)
    inloop = abb in acc.loop_blocks()
    ctx.check(R, "tcp-accept-in-retry-loop", inloop, "tcp.accept() lies on a cycle: %s" % inloop, (acc, abb))
    # ---- TLS stream
    sc = _stream_coroutine(ctx, R)
    if sc is not None:
        sends = sc.live_calls(r"async_stream::yielder::Sender::<T>::send$")
        for n, (bb, t) in enumerate(sorted(sends)):
            # the item is an `Ok(..)` aggregate, or a Result that was tested on every path from its definition to the yield
            # with the Err edge excluded (`if let Err(e) = &negotiation { warn } else { yield negotiation }`)
            ok, how = holds_variant_at(sc, t["args"][1], bb, "std::result::Result", "Ok")
            ctx.check(R, "tls-stream-yield#%d-is-Ok" % n, ok, "value yielded by the TLS stream is certainly Ok(..): %s (%s)" % (ok, how), (sc, bb))
        dis = []
        for sbb2, info2 in discr_switches(sc, SELECT_OUT):
            e = variant_edge(sc, sbb2, info2, "Disabled")
            if e is not None:
                dis.append((sbb2, e))
        rets = sc.returns()
        ok = len(dis) == 1 and bool(rets) and all(sc.edge_dominates(dis[0][0], dis[0][1], r) for r in rets)
        ctx.check(R, "tls-stream-ends-only-when-all-branches-disabled", ok,
                  "returns of the stream coroutine: %d, all under select!'s Disabled (`else`) arm: %s — no negotiation outcome ends the stream" % (len(rets), ok), sc)
        # the accept branch of that select is irrefutable: a HttpAcceptor::accept future, so `else` needs both disabled
        acs = sc.live_calls(r"^server::HttpAcceptor::accept$")
        ctx.check(R, "tls-stream-accepts-through-HttpAcceptor", len(acs) == 1 and acs[0][0] in sc.loop_blocks(), "HttpAcceptor::accept calls inside the stream loop: %d" % len(acs), sc)
        # Added after adversary change C18-K (the accept branch of the select! got the precondition `if tls_negotiations.len() < 128`: with
        # 128 handshakes stalled -- there is no handshake timeout -- accept(2) is never called again and every new client hangs): the
        # branch that accepts connections carries no precondition; nothing a peer does can disable it
        accept_idx = set()
        for g in D.descendants(sc):
            if "macros/select.rs" not in (g.raw.get("span") or ""):
                continue
            polls = [(b, t) for b, t in g.live_calls(r"Future::poll$") if "HttpAcceptor::accept" in (t.get("resolved") or "")]
            heads = [b for b, t in g.live_calls(r"iter::Iterator::next$")]
            for sbb, t in g.switches():
                d = t["discr"]
                if d.get("k") in ("copy", "move") and not d["pl"]["p"] and g.local_ty(d["pl"]["l"]) == "u32":
                    for v, tgt in t["targets"]:
                        if any(b in g.reachable(tgt, avoid=heads + [sbb]) for b, _ in polls):
                            accept_idx.add(v)
        gated = []
        for bb, i, st in sc.stmts():
            rv = st["rv"]
            if bb in sc.reachable(0) and rv["rv"] == "binop" and rv["op"] == "Shl" and rv["b"].get("k") == "const" and (rv["a"].get("val") or {}).get("int") == 1 \
                    and sc.local_ty(st["pl"]["l"]) == "u8" and (rv["b"].get("val") or {}).get("int") in accept_idx:
                gated.append(bb)
        ctx.check(R, "tls-stream-accept-branch-is-unconditional", len(accept_idx) == 1 and not gated,
                  "select! branch that polls HttpAcceptor::accept: %s; reachable code that can disable it (a branch precondition): %d site(s)" % (sorted(accept_idx) or "not found", len(gated)),
                  (sc, gated[0]) if gated else sc)
    # ---- server task
    r = server_task(ctx.ds)
    if isinstance(r, str):
        ctx.lost(R, r)
        return
    st, sp, co, node = r
    arms, problems = accept_arms(co)
    for p in problems:
        ctx.lost(R, p)
    for name in sorted(arms):
        ok, n, detail = exits_only_on_close_signal(ctx.ds, co, arms[name]["loop"])
        ctx.check(R, "%s-accept-loop-left-only-on-close-signal" % name, ok, "%d exit edge(s): %s" % (n, "; ".join(detail)), (co, arms[name]["accept_bb"]))
    ctx.check(R, "two-accept-arms", sorted(arms) == ["http", "https"], "accept arms: %s" % sorted(arms), co)


def r2_isolation(ctx):
    R = ctx.rule("C18.R2", "isolation: each served connection future is handed (through graceful.watch) to tokio::spawn and each TLS negotiation to the FuturesUnordered set; the accept "
                 "loops never await them", floor=6)
    r = server_task(ctx.ds)
    if isinstance(r, str):
        ctx.lost(R, r)
        return
    st, sp, co, node = r
    arms, problems = accept_arms(co)
    for p in problems:
        ctx.lost(R, p)
    spawns = co.live_calls(SPAWN)
    allow = re.compile(_FWD_PLUMBING)
    for name in sorted(arms):
        for vbb, vt in arms[name]["serve"]:
            tainted, sinks = co.forward([vt["dest"]["l"]])
            other = sorted(set((n.get("callee") or "<indirect>") for b, k, n in sinks if k == "call" and not allow.search(n.get("callee") or "")))
            spawned = [b for b, t in spawns if slice_has_call_at(co.slice(t["args"][0]), vbb)]
            ctx.check(R, "%s-connection-spawned-not-awaited" % name, not other and len(spawned) == 1,
                      "the connection future reaches tokio::spawn at %d site(s); other calls receiving it (an await would show as into_future/poll): %s" % (len(spawned), other), (co, vbb))
    serve_all = co.live_calls(SERVE)
    ctx.check(R, "all-serve-sites-covered", len(serve_all) == sum(len(a["serve"]) for a in arms.values()) and len(serve_all) >= 2, "serve_connection sites: %d" % len(serve_all), co)
    # awaits inside the accept loops: only the select!
    for name in sorted(arms):
        loop = arms[name]["loop"]
        inl = [a for a in awaits(co) if a["poll_bb"] in loop]
        bad = [a["term"].get("callee_args") for a in inl if "PollFn" not in (a["term"].get("callee_args") or "") + (a["term"].get("resolved") or "")]
        ctx.check(R, "%s-loop-awaits-only-the-select" % name, len(inl) >= 1 and not bad, "awaits inside the %s accept loop: %d, other than the select!: %s" % (name, len(inl), bad), (co, arms[name]["accept_bb"]))
    sc = _stream_coroutine(ctx, R)
    if sc is None:
        return
    negs = sc.live_calls(r"tokio_rustls::TlsAcceptor::accept$")
    allow2 = re.compile(_NEG_PLUMBING)
    for n, (bb, t) in enumerate(sorted(negs)):
        tainted, sinks = sc.forward([t["dest"]["l"]])
        other = sorted(set((x.get("callee") or "<indirect>") for b, k, x in sinks if k == "call" and not allow2.search(x.get("callee") or "")))
        pushed = any(k == "call" and (x.get("callee") or "").endswith("FuturesUnordered::<Fut>::push") for b, k, x in sinks)
        ctx.check(R, "tls-negotiation#%d-queued-not-awaited" % n, pushed and not other, "the TLS negotiation future is pushed to the FuturesUnordered set=%s; other calls receiving it: %s" % (pushed, other), (sc, bb))
    if not negs:
        ctx.check(R, "tls-negotiation-present", False, "no tokio_rustls::TlsAcceptor::accept call in the TLS stream", sc)


def r3_errors_become_responses(ctx):
    R = ctx.rule("C18.R3", "every request-derived failure becomes a response: http_request_handle_wrap yields Ok(response) on every path, the error arm through HandlerError::into_response; "
                 "Service::call returns that future; From<hyper::Error>/From<http::Error> build a 400", floor=10)
    wrap = ctx.need_fn(ctx.ds, R, r"^server::http_request_handle_wrap$")
    wb = ctx.ds.body_of(wrap)
    rd = return_defs(wb)
    tags = sorted(set(t for b, t in rd))
    ctx.check(R, "wrap-yields-only-Ok", tags == ["Ok"], "values written to the return place of http_request_handle_wrap: %s (an Err makes hyper drop the connection without a response)" % tags, wb)
    hs = wb.live_calls(r"^server::http_request_handle$")
    if len(hs) != 1:
        ctx.lost(R, "the single http_request_handle call in the wrapper (%d found)" % len(hs))
        return
    hbb = hs[0][0]
    aws = awaits(wb, fut_call_bb=hbb)
    if len(aws) != 1 or aws[0]["ready"] is None:
        ctx.lost(R, "the await of http_request_handle")
        return
    aw = aws[0]
    sws = [(sbb, info) for sbb, info in result_switches_of(wb, aw["dest"]) if after_await(wb, aw, sbb) and "HandlerError" in info.get("ty", "")]
    if len(sws) != 1:
        ctx.lost(R, "the switch on http_request_handle's Result (%d found)" % len(sws))
        return
    sbb, info = sws[0]
    okb, errb = variant_edge(wb, sbb, info, "Ok"), variant_edge(wb, sbb, info, "Err")
    irs = [(b, t) for b, t in wb.live_calls(r"^handler::HandlerError::into_response$") if wb.edge_dominates(sbb, errb, b)]
    ok = len(irs) == 1 and wb.must_pass([irs[0][0]], start=errb)
    ctx.check(R, "error-arm-renders-a-response", ok, "HandlerError::into_response sites on the Err edge: %d; on every path from that edge to the return: %s" % (len(irs), ok), (wb, errb))
    r0 = wb.slice({"l": 0, "p": []})
    ok = bool(irs) and slice_has_call_at(r0, irs[0][0]) and r0.touches_local(aw["dest"])
    ctx.check(R, "both-arms-feed-the-returned-response", ok, "the returned Ok(..) carries into_response(error) on the Err edge and the handler's response on the Ok edge: %s" % ok, (wb, sbb))
    for nm, e in (("ok", okb), ("err", errb)):
        # (release configuration: the panic of a `debug_assert!` lies in a block that does not exist there)
        dbg = wb.debug_only_blocks()
        div = [b for b in wb.reachable(e, avoid=[sbb]) if b not in dbg and wb.blocks[b]["term"]["t"] == "call" and "to" not in wb.blocks[b]["term"]]
        ret = any(wb.blocks[b]["term"]["t"] == "return" for b in wb.reachable(e))
        ctx.check(R, "%s-arm-reaches-the-return" % nm, not div and ret, "diverging calls after the %s edge: %d; return reachable: %s" % (nm, len(div), ret), (wb, e))
    # the error renderer itself returns a Response, never a Result
    for pat in (r"^handler::HandlerError::into_response$", r"^error::HttpError::into_response$"):
        f = ctx.ds.one(pat)
        if f is None:
            ctx.lost(R, "function /%s/" % pat)
            continue
        ty = f.local_ty(0)
        ctx.check(R, "renderer-total:%s" % f.id, ty.startswith("http::Response<"), "%s returns %s" % (f.id, ty[:60]), f, nontrivial=False)
    # Service::call hands hyper exactly that future
    who = [(f, bb) for f, bb, t in callers(ctx.ds, r"^server::http_request_handle_wrap$")]
    ok = len(who) == 1 and "Service<" in who[0][0].id and slice_has_call_at(who[0][0].slice({"l": 0, "p": []}), who[0][1]) and who[0][0].must_pass([who[0][1]])
    ctx.check(R, "service-call-returns-the-wrapper-future", ok, "callers of http_request_handle_wrap: %s" % [f.id for f, _ in who], who[0] if who else None)
    s400 = status_const_of_ctor(ctx.ds, "for_bad_request")
    for src in ("hyper::Error", "http::Error"):
        f = ctx.ds.one(r"^<error::HttpError as std::convert::From<%s>>::from$" % re.escape(src))
        if f is None:
            ctx.lost(R, "impl From<%s> for HttpError" % src)
            continue
        rd = return_defs(f, adt="error::HttpError")
        r0 = f.slice({"l": 0, "p": []})
        made = sorted(set(c for c in r0.callee_names() if re.search(r"^error::HttpError::", c)) | set("aggregate " + a[1] for a in r0.atoms if a[0] == "agg" and a[1] == "error::HttpError"))
        ok = bool(rd) and all(t in ("call:error::HttpError::for_bad_request", "value") for b, t in rd) and made == ["error::HttpError::for_bad_request"] and s400 == {400}
        ctx.check(R, "from-%s-is-400" % src, ok, "From<%s> returns %s built by %s; for_bad_request's status constant: %s" % (src, sorted(set(t for _, t in rd)), made, sorted(s400 or [])), f)


def _accept_roots(ctx, R):
    st = ctx.need_fn(ctx.ds, R, r"^server::HttpServerStarter::<C>::start$")
    roots = [st.id]
    for pat in (r"^server::HttpAcceptor::accept$", r"^server::HttpsAcceptor::(new|accept|new_stream)$", r"^server::TlsConn::", r"^<server::TlsConn as ",
                r"^server::ServerConnectionHandler::<C>::", r"^server::ServerRequestHandler::<C>::new$"):
        roots += [f.id for f in ctx.ds.fns(pat)]
    return roots


def _census(ctx, D, R, region_name, fids, rows):
    found = Counter()
    where = {}
    sites = {}
    for fid in sorted(fids):
        g = D.F[fid]
        # a site is attributed to the source-level function item it is written in: whether it sits in the body, in a
        # closure / async block of it, or in a private helper that was inlined into it is a matter of style
        item = norm_fid(owner_fn(D, g).id)
        for kind, what, bucket, bb in census_sites(g):
            if kind == "call" and not bucket:
                # an unwrap-like site is keyed by what it tests (`Option::None <- <origin of the value>`), not by how the
                # test is spelled: `.expect("..")`, `let Some(x) = v else { panic!("..") }` and a match with an
                # unreachable!() arm on the same value are one line of the table
                what = site_what(g, bb, what)
            k = (region_name, item, ("macro-" + kind) if bucket else kind, what)
            found[k] += 1
            where.setdefault(k, (g, bb))
            sites.setdefault(k, []).append((g, bb))
    for k in sorted(found):
        n = found[k]
        if k not in rows and k[2] == "call":
            # not reviewed -- but a site may be decided outright: its function is evaluated on every input (each field-less enum
            # parameter over all its variants, constant tables as rendered by the driver) and the tested value is never the panicking
            # variant: a lookup in a constant table keyed by an enum that has an entry for every variant cannot miss
            verdicts = [site_cannot_fail(D, g, bb) for g, bb in sites[k]]
            if all(ok for ok, why in verdicts):
                ctx.check(R, "%s:%s:%s:%s" % k, True, "%d site(s) not on the table, decided by evaluation: %s" % (n, verdicts[0][1]), where[k])
                continue
        if k not in rows:
            ctx.check(R, "%s:%s:%s:%s" % k, False, "potential panic site not on tables/c18_panics.txt: %s %s in %s (x%d) — review it and add a line with the reason, or remove it" % (k[2], k[3], k[1], n), where[k])
            continue
        allowed, reason = rows[k]
        ok = allowed is None or n <= allowed
        ctx.check(R, "%s:%s:%s:%s" % k, ok, "%d site(s), table allows %s — %s" % (n, "any number (macro bucket)" if allowed is None else allowed, reason), where[k])
    stale = [k for k in rows if k[0] == region_name and k not in found]
    return found, stale


def r4_panic_census(ctx):
    R = ctx.rule("C18.R4", "panic census: every potential panic site in the call-graph regions of the accept path (start / acceptors) and of http_request_handle_wrap is on "
                 "tables/c18_panics.txt with a reason and at most the reviewed multiplicity", floor=37)   # one instance per (region, function item, kind, what); 44 before closures were counted with their function
    if not os.path.exists(TABLE):
        ctx.lost(R, "tables/c18_panics.txt")
        return
    rows, errs = load_panic_table(TABLE, ctx.features)
    for e in errs:
        ctx.check(R, "table-format:%s" % e, False, e, None, nontrivial=False)
    # normalised view: a closure handed to an Option/Result combinator (`.unwrap_or_else(|e| unreachable!(..))`, `.map(|v| v.unwrap())`)
    # is spliced into the arm of a switch on the receiver, so a site in it is the same site as in the `match` it abbreviates
    D = ctx.dsn
    wrap = ctx.need_fn(D, R, r"^server::http_request_handle_wrap$")
    who = [f.id for f, bb, t in callers(D, r"^server::http_request_handle_wrap$")]
    req = rta_region(D, [wrap.id] + who)
    acc = rta_region(D, _accept_roots(ctx, R)) - req
    ctx.notes["C18.R4 regions"] = {"request": len(req), "accept": len(acc)}
    ctx.check(R, "region-sizes", len(req) >= 150 and len(acc) >= 15, "functions analysed: request path %d, accept path %d (outside the request path)" % (len(req), len(acc)), wrap, nontrivial=False)
    f1, stale1 = _census(ctx, D, R, "request", req, rows)
    f2, stale2 = _census(ctx, D, R, "accept", acc, rows)
    ctx.notes["C18.R4 table lines without a site on this tree"] = [" | ".join(k) for k in stale1 + stale2]
    bad_region = [k for k in rows if k[0] not in ("request", "accept")]
    ctx.check(R, "table-regions-known", not bad_region, "table lines with an unknown region: %s" % bad_region, None, nontrivial=False)



def r5_no_client_sized_allocation(ctx):
    """Added after adversary change C18-B (`BytesMut::with_capacity(body.size_hint().lower())`: a declared Content-Length of
    2^62 aborts the process in the allocator before a single body byte is read)."""
    R = ctx.rule("C18.R5", "on the request path no buffer is pre-sized from a length the client merely declares (Body::size_hint / SizeHint / Content-Length): "
                 "capacity arguments are constants, server-side values or lengths of data already received", floor=1)
    roots = [f.id for f in ctx.ds.F.values() if re.search(r"^server::http_request_handle_wrap$|as extractor::common::(Exclusive|Shared)Extractor>::from_request$|^extractor::body::|^http_util::", f.id)]
    reg = ctx.ds.region(roots)
    n = 0
    for fid in sorted(reg):
        f = ctx.ds.F[fid]
        for bb, t in f.live_calls(r"::(with_capacity|with_capacity_in|reserve|reserve_exact|try_reserve|try_reserve_exact|resize|resize_with|from_elem|set_len)$"):
            if not t["args"]:
                continue
            n += 1
            size = t["args"][-1] if not t["callee"].endswith(("resize", "resize_with")) else t["args"][1]
            sl = f.slice(size)
            declared = [c for c in sl.callee_names() if re.search(r"size_hint|SizeHint|content_length", c)] + \
                [a[1] for a in sl.atoms if a[0] == "const" and "CONTENT_LENGTH" in a[1]]
            bounded = sl.has_call(r"cmp::(Ord::)?min$|::clamp$") and not False
            ctx.check(R, "capacity:%s:%s" % (fid.split("::{closure")[0], t["callee"].split("::")[-1]), not declared or bounded,
                      "capacity argument derives from %s%s" % (declared or "no client-declared length", " (bounded by min/clamp)" if declared and bounded else ""), (f, bb))
    ctx.check(R, "capacity-sites-examined", n >= 1, "capacity-taking calls examined in the request region (%d functions): %d" % (len(reg), n), nontrivial=False)



def r_frame_errors_are_errors(ctx):
    """C11.R7 (a failed body frame always becomes a for_bad_request error item), re-evaluated here because its violation is a
    violation of this property too (seed C18-D)."""
    from . import c11
    from .lib_c01 import Renamed
    c11.r7_frame_errors_are_errors(Renamed(ctx, "C18.R6", "a truncated or corrupt request body is answered with an error, never handed to the handler as if complete"))


def r7_unreadable_content_type(ctx):
    """`invalid header values are answered with an error`: a Content-Type that is not a legal string is refused, it does not fall
    back to the JSON default.  This is C10.R9, re-evaluated here (adversary change C18-E merged `absent` and `unreadable`)."""
    from . import c10
    from .lib_c01 import Renamed
    c10.r9_unreadable_content_type_is_refused(Renamed(ctx, "C18.R7", "a request whose Content-Type header value is not a legal string is answered with a 4xx, never treated as if the header were absent"))


def r8_undecodable_path_is_an_error(ctx):
    """`its status is 4xx or 5xx whenever the request was malformed`: a request path whose percent-escapes do not spell UTF-8 is refused by
    the strict decode, never repaired.  This is C03.R1, re-evaluated here (adversary change C18-J: `from_utf8_lossy` routed `/things/%ff`
    to a handler with U+FFFD in place of the client's bytes and answered 200)."""
    from . import c03
    from .lib_c01 import Renamed
    c03.r1_decode_once(Renamed(ctx, "C18.R8", "a malformed request path (escapes that are not UTF-8) becomes the 400 of the strict decode; it is never repaired and routed"))


def r9_oversized_bodies_are_counted(ctx):
    """`oversized requests never crash or wedge the server`: the running total every body frame is counted into is what the limit is
    compared with, so a body over the limit is refused however it is framed.  This is C11.R1, re-evaluated here (adversary change C18-M:
    `bytes_read += len` became `bytes_read = len`; sixty-four 400-byte chunks passed a 1024-byte limit and were buffered whole)."""
    from . import c11
    from .lib_c01 import Renamed
    c11.r1_cap_before_delivery(Renamed(ctx, "C18.R9", "every frame of a request body is added to the running total that is compared with the limit before the frame is delivered"))


def r10_malformed_handshake_is_refused(ctx):
    """`its status is 4xx or 5xx whenever the request was malformed`: a websocket handshake lacking a mandatory header is answered 400.
    This is C20.R1, re-evaluated here (adversary change C18-N: `.map(as_bytes) != Some(b"13")` became `.is_some_and(|v| v.as_bytes() !=
    b"13")`, so a handshake without Sec-WebSocket-Version was upgraded)."""
    from . import c20
    from .lib_c01 import Renamed
    c20.r1_four_checks(Renamed(ctx, "C18.R10", "a websocket handshake is upgraded only after each mandatory header was found and tested; every other exit is a 400"))


RULES = [("C18.R10", r10_malformed_handshake_is_refused), ("C18.R9", r9_oversized_bodies_are_counted), ("C18.R8", r8_undecodable_path_is_an_error), ("C18.R7", r7_unreadable_content_type), ("C18.R6", r_frame_errors_are_errors), ("C18.R5", r5_no_client_sized_allocation), ("C18.R1", r1_accept_tolerates_errors), ("C18.R2", r2_isolation), ("C18.R3", r3_errors_become_responses), ("C18.R4", r4_panic_census)]

_S = "dropshot/src/server.rs"
_I32 = " " * 32
_I28 = " " * 28
_I24 = " " * 24
_M_OLD = _I24 + "match negotiation {\n" + _I28 + "Ok(conn) => yield Ok(conn),\n" + _I28 + "Err(e) => {"
_M_END = _I32 + "warn!(log, \"tls accept err: {}\", e);\n" + _I28 + "},\n" + _I24 + "}"
_M_END_NEW = _I32 + "warn!(log, \"tls accept err: {}\", e);\n" + _I28 + "}\n" + _I24 + "}"
_MODE_USE_OLD = "    let mut response = match server.config.default_handler_task_mode {\n"
_MODE_USE_NEW = "    debug!(rqctx.log, \"running handler\"; \"mode\" => TaskModeName::from(server.config.default_handler_task_mode).0);\n" + _MODE_USE_OLD


def _mode_table(entries):
    """A private constant (mode, name) table consulted with find_map / then_some and an expect on the result, in a From impl."""
    return ("const TASK_MODE_NAMES: [(HandlerTaskMode, &str); %d] = [%s];\nstruct TaskModeName(&'static str);\nimpl From<HandlerTaskMode> for TaskModeName {\n"
            "    fn from(mode: HandlerTaskMode) -> Self {\n        TaskModeName(TASK_MODE_NAMES.iter().find_map(|&(m, name)| (m == mode).then_some(name)).expect(\"every task mode has a name\"))\n    }\n}\n\n"
            "async fn http_request_handle<C: ServerContext>(" % (len(entries), ", ".join("(HandlerTaskMode::%s, \"%s\")" % (e, e.lower()) for e in entries)))


_ACC_OLD = "    async fn accept(&self) -> (TcpStream, SocketAddr) {\n        loop {\n            match self.tcp.accept().await {\n                Ok((socket, addr)) => return (socket, addr),\n"
_ACC_TAIL_OLD = "                        .await;\n                    }\n                },\n            }\n        }\n    }"
_ACC_TAIL_NEW = "                        .await;\n                    }\n                },\n            }\n            None\n        }\n    }"


def _acc_new(on_none):
    """HttpAcceptor::accept split into a retry loop and a private `async fn try_accept(&self) -> Option<..>` that makes one attempt,
    deals with the error and answers None."""
    return ("    async fn accept(&self) -> (TcpStream, SocketAddr) {\n        loop {\n            match self.try_accept().await {\n                Some(accepted) => return accepted,\n"
            "                None => " + on_none + ",\n            }\n        }\n    }\n\n    async fn try_accept(&self) -> Option<(TcpStream, SocketAddr)> {\n        {\n"
            "            match self.tcp.accept().await {\n                Ok((socket, addr)) => return Some((socket, addr)),\n")


_SEL_OLD = "                None => loop {\n                    tokio::select! {\n                        (sock, remote_addr) = http_acceptor.accept() => {\n"
_SEL_TAIL_OLD = ("                            tokio::spawn(fut);\n                        },\n\n                        _ = &mut rx => {\n                            info!(log, \"beginning graceful shutdown\");\n"
                 "                            break;\n                        }\n                    }\n                },")
_SEL_TAIL_NEW = "                            tokio::spawn(fut);\n                        }\n                    }\n                },"


def _sel_new(accept_arm):
    """The HTTP accept loop with an expression-form select! that only classifies the event, a let-else guard that leaves the loop, and the
    per-connection code at loop-body level."""
    return ("                None => loop {\n                    let next_conn = tokio::select! {\n                        accepted = http_acceptor.accept() => " + accept_arm + ",\n"
            "                        _ = &mut rx => None,\n                    };\n                    let Some((sock, remote_addr)) = next_conn else {\n"
            "                        info!(log, \"beginning graceful shutdown\");\n                        break;\n                    };\n                    {\n                        {\n")


SELFTEST = [
    {"name": "accept-error-panics", "kind": "mutant", "why": "a per-socket accept error (ECONNABORTED from a peer that reset early) kills the accept task",
     "edits": [(_S, "                    | std::io::ErrorKind::ConnectionReset => (),", "                    | std::io::ErrorKind::ConnectionReset => panic!(\"accept failed: {}\", e),")],
     "expect": ["C18.R1", "C18.R4"]},
    {"name": "accept-error-exits", "kind": "mutant", "why": "resource exhaustion on accept (EMFILE) terminates the process",
     "edits": [(_S, "                        warn!(self.log, \"accept error\"; \"error\" => e);\n", "                        warn!(self.log, \"accept error\"; \"error\" => e);\n                        std::process::exit(1);\n")],
     "expect": ["C18.R1"]},
    {"name": "tls-failure-yielded", "kind": "mutant", "why": "a failed TLS negotiation is yielded as Err: the HTTPS select! arm stops matching and the server accepts no further connection",
     "edits": [(_S, "                                warn!(log, \"tls accept err: {}\", e);", "                                warn!(log, \"tls accept err: {}\", e);\n                                yield Err(e);")],
     "expect": ["C18.R1"]},
    {"name": "tls-failure-ends-stream", "kind": "mutant", "why": "a failed TLS negotiation ends the connection stream",
     "edits": [(_S, "                                warn!(log, \"tls accept err: {}\", e);", "                                warn!(log, \"tls accept err: {}\", e);\n                                break;")],
     "expect": ["C18.R1"]},
    {"name": "connection-awaited-in-accept-loop", "kind": "mutant", "why": "one slow or silent peer wedges accepting",
     "edits": [(_S, "\n" + _I28 + "tokio::spawn(fut);\n", "\n" + _I28 + "let _ = fut.await;\n")],
     "expect": ["C18.R2"]},
    {"name": "tls-negotiation-awaited-inline", "kind": "mutant", "why": "a peer that stalls its TLS handshake wedges accepting",
     "edits": [(_S, "                            .accept(socket)\n                            .map_ok(move |stream| TlsConn::new(stream, addr));", "                            .accept(socket)\n                            .await\n                            .map(move |stream| TlsConn::new(stream, addr));\n                        let tls_negotiation = futures::future::ready(tls_negotiation);")],
     "expect": ["C18.R2"]},
    {"name": "wrap-returns-err", "kind": "mutant", "why": "a 5xx handler error is returned to hyper as Err: the connection is dropped without a response",
     "edits": [(_S, "    let response = match maybe_response {\n        Err(error) => {", "    let response = match maybe_response {\n        Err(error) if error.status_code().is_server_error() => {\n            return Err(error.internal_message().clone().into());\n        }\n        Err(error) => {")],
     "expect": ["C18.R3"]},
    {"name": "header-to-str-unwrap", "kind": "mutant", "why": "a logged header with non-ASCII bytes panics the connection task on every request",
     "edits": [(_S, "            .and_then(|v| v.to_str().ok().map(str::to_string));", "            .map(|v| v.to_str().unwrap().to_string());")],
     "expect": ["C18.R4"]},
    {"name": "tls-arm-unwraps-accept", "kind": "mutant", "why": "a None / Err from the TLS acceptor panics the server task",
     "edits": [(_S, "                            Some(Ok(sock)) = https_acceptor.accept() => {\n", "                            sock = https_acceptor.accept() => {\n                                let sock = sock.unwrap().unwrap();\n")],
     "expect": ["C18.R4"]},
    {"name": "accept-arms-reordered-renamed", "kind": "benign", "why": "behaviour-preserving: match arms reordered, bindings renamed, tuple returned whole",
     "edits": [(_S, "                Ok((socket, addr)) => return (socket, addr),\n                Err(e) => match e.kind() {", "                Err(err) => match err.kind() {"),
               (_S, "                        warn!(self.log, \"accept error\"; \"error\" => e);", "                        warn!(self.log, \"accept error\"; \"error\" => err);"),
               (_S, "                        .await;\n                    }\n                },\n            }", "                        .await;\n                    }\n                },\n                Ok(pair) => return pair,\n            }")]},
    {"name": "stream-yield-through-local", "kind": "benign", "why": "behaviour-preserving: the yielded Ok is bound first; explicit continue after the warning",
     "edits": [(_S, "                            Ok(conn) => yield Ok(conn),", "                            Ok(conn) => {\n                                let item = Ok(conn);\n                                yield item;\n                            }"),
               (_S, "                                warn!(log, \"tls accept err: {}\", e);", "                                warn!(log, \"tls accept err: {}\", e);\n                                continue;")]},
    {"name": "wrap-ok-through-local-and-logging", "kind": "benign", "why": "behaviour-preserving: result bound before return; an extra trace line",
     "edits": [(_S, "    Ok(response)\n}\n\nasync fn http_request_handle<C: ServerContext>(", "    trace!(request_log, \"responding\");\n    let out = Ok(response);\n    out\n}\n\nasync fn http_request_handle<C: ServerContext>(")]},
    {"name": "extra-debug-lines", "kind": "benign", "why": "behaviour-preserving: a debug line on the error arm and in both accept arms",
     "edits": [(_S, "            error.into_response(&request_id)\n", "            debug!(request_log, \"rendering error response\");\n            error.into_response(&request_id)\n"),
               (_S, "\n" + _I28 + "tokio::spawn(fut);\n", "\n" + _I28 + "debug!(log, \"connection task spawned\");\n" + _I28 + "tokio::spawn(fut);\n")]},
    {"name": "panic-site-moves-into-closure", "kind": "benign", "why": "behaviour-preserving: the reviewed `HeaderValue::from_str(request_id).unwrap()` of http_request_handle moves into a local closure of the same function (the census counts per function item)",
     "edits": [(_S, "        http::header::HeaderValue::from_str(&request_id).unwrap(),\n", "        {\n            let to_header = |id: &str| http::header::HeaderValue::from_str(id).unwrap();\n            to_header(&request_id)\n        },\n")]},
    {"name": "option-filled-then-matched", "kind": "benign", "why": "behaviour-preserving: `get_or_insert_with` written as `if is_none() { = Some(..) }` followed by a match whose None arm is unreachable!() -- dead code, not a new panic site",
     "edits": [("dropshot/src/error.rs", "        self.headers.get_or_insert_with(|| Box::new(http::HeaderMap::new()))", "        if self.headers.is_none() {\n            self.headers = Some(Box::new(http::HeaderMap::new()));\n        }\n        match self.headers {\n            Some(ref mut header_map) => header_map,\n            None => unreachable!(\"header map was just created\"),\n        }")]},
    {"name": "expect-as-let-else", "kind": "benign", "why": "behaviour-preserving: `opt.expect(\"..\")` written as `let Some(x) = opt else { panic!(\"..\") }` -- the same panic under the same condition; the census keys an unwrap-like site by the value it tests, not by the callee",
     "edits": [("dropshot/src/error.rs", "                .expect(\"a newly created response builder cannot have failed\");",
                "                ;\n            let Some(builder_headers) = builder_headers else {\n                panic!(\"a newly created response builder cannot have failed\")\n            };")]},
    {"name": "let-else-on-another-option", "kind": "mutant", "why": "a let-else that panics when the error carries no extra headers: every plain error response panics the connection task (a different tested value than the reviewed headers_mut() site)",
     "edits": [("dropshot/src/error.rs", "        if let Some(headers) = self.headers {\n", "        {\n            let Some(headers) = self.headers else { panic!(\"an error without headers\") };\n")],
     "expect": ["C18.R4"]},
    {"name": "option-matched-without-filling", "kind": "mutant", "why": "the None arm of the match is reachable (the map is only created for some errors): every error response without extra headers panics the connection task",
     "edits": [("dropshot/src/error.rs", "        self.headers.get_or_insert_with(|| Box::new(http::HeaderMap::new()))", "        if self.headers.is_none() && self.error_code.is_some() {\n            self.headers = Some(Box::new(http::HeaderMap::new()));\n        }\n        match self.headers {\n            Some(ref mut header_map) => header_map,\n            None => unreachable!(\"header map was just created\"),\n        }")],
     "expect": ["C18.R4"]},
    {"name": "bad-request-conversion-through-local", "kind": "benign", "why": "behaviour-preserving: From<hyper::Error> binds the message and the 400 error to locals before returning",
     "edits": [("dropshot/src/error.rs", "impl From<HyperError> for HttpError {\n    fn from(error: HyperError) -> Self {\n        // TODO-correctness dig deeper into the various cases to make sure this\n        // is a valid way to represent it.\n        HttpError::for_bad_request(\n            None,\n            format!(\"error processing request: {}\", error),\n        )",
                "impl From<HyperError> for HttpError {\n    fn from(error: HyperError) -> Self {\n        let message = format!(\"error processing request: {}\", error);\n        let bad_request = HttpError::for_bad_request(None, message);\n        bad_request")]},
    {"name": "stream-yields-result-tested-by-predicate", "kind": "benign", "why": "behaviour-preserving: the negotiation outcome is yielded whole under `if Result::is_ok(&negotiation)`; the failure is logged on the other branch",
     "edits": [(_S, _M_OLD, _I24 + "if Result::is_ok(&negotiation) {\n" + _I28 + "yield negotiation;\n" + _I24 + "} else if let Err(e) = negotiation {\n" + _I28 + "{"), (_S, _M_END, _M_END_NEW)]},
    {"name": "stream-yields-result-under-let-else-test", "kind": "benign", "why": "behaviour-preserving: `if let Err(e) = &negotiation { warn } else { yield negotiation }` -- the yielded Result was tested, the Err edge does not reach the yield",
     "edits": [(_S, _M_OLD, _I24 + "if let Err(e) = &negotiation {\n" + _I28 + "{"), (_S, _M_END, _M_END_NEW[:-len(_I24 + "}")] + _I24 + "} else {\n" + _I28 + "yield negotiation;\n" + _I24 + "}")]},
    {"name": "stream-yields-untested-result", "kind": "mutant", "why": "the negotiation outcome is yielded whatever it is (the test only logs): a failed TLS handshake reaches the accept loop as Err and the HTTPS select! arm stops matching",
     "edits": [(_S, _M_OLD, _I24 + "if let Err(e) = &negotiation {\n" + _I28 + "{"), (_S, _M_END, _M_END_NEW + "\n" + _I24 + "yield negotiation;")],
     "expect": ["C18.R1"]},
    {"name": "stream-yields-result-on-wrong-polarity", "kind": "mutant", "why": "only failed negotiations are yielded",
     "edits": [(_S, _M_OLD, _I24 + "if !Result::is_ok(&negotiation) {\n" + _I28 + "yield negotiation;\n" + _I24 + "} else if let Err(e) = negotiation {\n" + _I28 + "{"), (_S, _M_END, _M_END_NEW)],
     "expect": ["C18.R1"]},
    {"name": "select-classifies-then-let-else-breaks", "kind": "benign", "why": "behaviour-preserving: the select! only turns the event into an Option (Some(connection) / None for the close signal); a let-else on it logs and breaks; the connection is served at loop-body level (the exit is decided under the hypotheses `the select resolved to branch i`)",
     "edits": [(_S, _SEL_OLD, _sel_new("Some(accepted)")), (_S, _SEL_TAIL_OLD, _SEL_TAIL_NEW)]},
    {"name": "select-classifies-connection-as-close", "kind": "mutant", "why": "same spelling, but the accept branch yields None for some peers: a connection from such a peer ends the accept loop although nobody asked the server to close",
     "edits": [(_S, _SEL_OLD, _sel_new("if accepted.1.ip().is_unspecified() { None } else { Some(accepted) }")), (_S, _SEL_TAIL_OLD, _SEL_TAIL_NEW)],
     "expect": ["C18.R1"]},
    {"name": "accept-split-into-try-accept", "kind": "benign", "why": "behaviour-preserving: one attempt (with the error handling) moves into a private async fn answering Option; accept() retries until Some (R1 explores the spliced body under the hypotheses `tcp.accept() produced Ok` / `.. Err`, following the Option through the helper's Poll::Ready)",
     "edits": [(_S, _ACC_OLD, _acc_new("continue")), (_S, _ACC_TAIL_OLD, _ACC_TAIL_NEW)]},
    {"name": "accept-split-caller-panics-on-none", "kind": "mutant", "why": "same split, but the retry loop treats the helper's None (an accept error: ECONNABORTED, EMFILE) as fatal",
     "edits": [(_S, _ACC_OLD, _acc_new("panic!(\"accept failed\")")), (_S, _ACC_TAIL_OLD, _ACC_TAIL_NEW)],
     "expect": ["C18.R1"]},
    {"name": "total-lookup-in-constant-table", "kind": "benign", "why": "no new way to panic: a constant (enum key, text) table with an entry for every variant, consulted with find_map / then_some, and an expect on the result -- R4 evaluates the function on every variant of its enum parameter against the table the driver rendered: the lookup cannot miss",
     "edits": [(_S, "async fn http_request_handle<C: ServerContext>(", _mode_table(["Detached", "CancelOnDisconnect"])), (_S, _MODE_USE_OLD, _MODE_USE_NEW)]},
    {"name": "partial-lookup-in-constant-table", "kind": "mutant", "why": "the same lookup in a table that lacks an entry for CancelOnDisconnect: with that task mode every request panics its connection task",
     "edits": [(_S, "async fn http_request_handle<C: ServerContext>(", _mode_table(["Detached"])), (_S, _MODE_USE_OLD, _MODE_USE_NEW)],
     "expect": ["C18.R4"]},
    {"name": "full-range-index", "kind": "benign", "why": "no new way to panic: `&s[..]` (Index<RangeFull> on str) selects the whole string and cannot be out of bounds -- not a census site",
     "edits": [(_S, "        http::header::HeaderValue::from_str(&request_id).unwrap(),\n", "        http::header::HeaderValue::from_str(&request_id[..]).unwrap(),\n")]},
    {"name": "partial-range-index", "kind": "mutant", "why": "`&s[1..]` can be out of bounds / off a char boundary: a new, unreviewed potential panic on the request path",
     "edits": [(_S, "        http::header::HeaderValue::from_str(&request_id).unwrap(),\n", "        http::header::HeaderValue::from_str(&request_id[1..]).unwrap(),\n")],
     "expect": ["C18.R4"]},
    {"name": "sleep-tuned", "kind": "benign", "why": "property-preserving: back-off after a resource-exhaustion accept error changed from 100 ms to 50 ms",
     "edits": [(_S, "                        tokio::time::sleep(std::time::Duration::from_millis(\n                            100,\n                        ))", "                        tokio::time::sleep(std::time::Duration::from_millis(\n                            50,\n                        ))")]},
]

LEVEL_TEXT += ' Also (R5): on the request path no buffer is pre-sized from a length the client merely declares (size_hint / Content-Length).'
LEVEL_TEXT += " Also (R7 = C10.R9): an unreadable Content-Type value is refused, not defaulted. Also (R1): every pause on the error path of tcp.accept() is bounded by a constant; (R8 = C03.R1): a request path whose escapes are not UTF-8 becomes the 400 of the strict decode. Also (R1): the TLS stream's accept branch carries no precondition and the only pause on the accept path is the one after a failed accept(2). Also (R9 = C11.R1): every body frame is added to the running total compared with the limit; (R10 = C20.R1): a websocket handshake is upgraded only after each mandatory header was found and tested."
