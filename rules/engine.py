"""E2: analyses over mirfacts JSON (CFG, dominators, pruning, slices, call graph)."""
import json, os
import re
from collections import defaultdict


# --------------------------------------------------------------------------- pretty printing
def pl_str(pl):
    s = "_%d" % pl["l"]
    for e in pl["p"]:
        if e == "*":
            s = "(*%s)" % s
        elif isinstance(e, dict) and "f" in e:
            s += ".%s" % (e.get("n") or e["f"])
        elif isinstance(e, dict) and "dc" in e:
            s = "(%s as %s)" % (s, e["dc"] or e["v"])
        elif isinstance(e, dict) and "idx" in e:
            s += "[_%d]" % e["idx"]
        else:
            s += "[?]"
    return s


def op_str(op):
    k = op.get("k")
    if k in ("copy", "move"):
        return ("move " if k == "move" else "") + pl_str(op["pl"])
    if k == "const":
        if op.get("fn"):
            return "fn:" + op["fn"]
        if op.get("path"):
            v = op.get("val")
            return "const %s%s" % (op["path"], ("=" + json.dumps(v)) if v else "")
        if op.get("val") is not None:
            v = op["val"]
            if "str" in v:
                return json.dumps(v["str"])
            if "int" in v:
                return "%d_%s" % (v["int"], op["ty"])
            return json.dumps(v)
        return "const:%s" % op["ty"]
    return "?"


def rv_str(rv):
    k = rv["rv"]
    if k == "use":
        return op_str(rv["op"])
    if k == "ref":
        return ("&mut " if rv["mut"] else "&") + pl_str(rv["pl"])
    if k in ("copyderef", "rawptr"):
        return k + " " + pl_str(rv["pl"])
    if k == "discr":
        return "discr(%s)" % pl_str(rv["pl"])
    if k == "cast":
        return "%s as %s [%s]" % (op_str(rv["op"]), rv["ty"], rv["kind"])
    if k == "binop":
        return "%s(%s, %s)" % (rv["op"], op_str(rv["a"]), op_str(rv["b"]))
    if k == "unop":
        return "%s(%s)" % (rv["op"], op_str(rv["a"]))
    if k == "agg":
        tag = rv.get("adt") or rv.get("def") or rv["agg"]
        if rv.get("variant"):
            tag += "::" + rv["variant"]
        return "%s{%s}" % (tag, ", ".join(op_str(o) for o in rv["ops"]))
    return k + ":" + rv.get("dbg", "")


def term_str(t):
    k = t["t"]
    if k == "call":
        c = t.get("callee") or ("indirect " + t.get("callee_ty", ""))
        r = (" [=> %s]" % t["resolved"]) if t.get("resolved") else ""
        return "%s = %s(%s)%s -> bb%s" % (pl_str(t["dest"]), c, ", ".join(op_str(a) for a in t["args"]), r, t.get("to", "!"))
    if k == "switch":
        return "switch %s %s else bb%d" % (op_str(t["discr"]), ["%d→bb%d" % (v, b) for v, b in t["targets"]], t["otherwise"])
    if k == "assert":
        return "assert(%s == %s, %s) -> bb%d" % (op_str(t["cond"]), t["expected"], t["msg"], t["to"])
    if k == "yield":
        return "yield %s -> bb%d" % (op_str(t["value"]), t["to"])
    if k == "drop":
        return "drop(%s) -> bb%d" % (pl_str(t["pl"]), t["to"])
    if k in ("goto", "falseedge", "falseunwind"):
        return "%s -> bb%d" % (k, t["to"])
    return k


# --------------------------------------------------------------------------- facts
class Facts:
    def __init__(self, path, inline_unknown=True, desugar=False):
        d = json.load(open(path))
        self.raw = d
        self.crate = d["crate"]
        self.F = {}
        self.by_id = defaultdict(list)
        self.adts = {a["id"]: a for a in d["adts"]}
        self.consts = {}
        for c in d["consts"]:
            self.consts.setdefault(c["id"], c)
        self.const_list = d["consts"]
        self.impls = d["impls"]
        self.statics = d["statics"]
        self.stolen = d["stolen"]
        self.inlined = {}
        if inline_unknown:
            _inline_unknown_helpers(d, self.inlined)
        self.spliced = {}
        if desugar:
            if not os.environ.get("VERIF_NO_LOCAL_CLOSURES"):
                _inline_local_closure_calls(d, self.spliced)
            _desugar_bool_then_some(d)
            _desugar_combinators(d, self.spliced)
        self.threaded = [f["id"] for f in d["functions"] if _thread_known_variants(f)]
        for f in d["functions"]:
            fid = f["id"]
            key = fid
            if key in self.F:  # derive-generated duplicates: keep all, suffix the later ones
                n = 2
                while "%s#%d" % (fid, n) in self.F:
                    n += 1
                key = "%s#%d" % (fid, n)
            fn = Fn(self, key, f)
            self.F[key] = fn
            self.by_id[fid].append(fn)
        # a closure whose defining function was inlined away (helper inlining, combinator splicing) is re-parented to
        # the function that now contains its aggregate site, so that `F[raw["parent"]]` keeps meaning "the enclosing body"
        orphans = [g for g in self.F.values() if g.raw["kind"] == "Closure" and g.raw.get("parent") not in self.F]
        if orphans:
            site = {}
            for h in self.F.values():
                if not h.raw.get("inlined"):
                    continue
                for b in h.raw["blocks"]:
                    for st in b["st"]:
                        if st["s"] == "assign" and st["rv"]["rv"] == "agg" and st["rv"].get("def"):
                            site.setdefault(st["rv"]["def"], []).append(h)
            for g in orphans:
                hosts = site.get(g.raw["id"], [])
                if len(set(id(h) for h in hosts)) == 1:
                    g.raw["orig_parent"] = g.raw.get("parent")
                    g.raw["parent"] = hosts[0].raw["id"]
        self._impl_methods = None
        self._callers = None

    # -- lookup
    def fn(self, fid):
        return self.F.get(fid)

    def fns(self, pattern):
        """Functions whose id matches the regular expression (search)."""
        rx = re.compile(pattern)
        return [f for k, f in self.F.items() if rx.search(k)]

    def one(self, pattern):
        """The single function whose id matches, else None."""
        m = self.fns(pattern)
        return m[0] if len(m) == 1 else None

    def children(self, fn):
        """Closures / coroutines defined directly inside fn (or inside a helper that was inlined into it)."""
        parents = set([fn.raw["id"]]) | set(fn.raw.get("inlined", []))
        return [g for g in self.F.values() if g.raw.get("parent") in parents and g is not fn and g.raw["kind"] == "Closure"]

    def descendants(self, fn):
        out = []
        st = [fn]
        while st:
            x = st.pop()
            for c in self.children(x):
                out.append(c)
                st.append(c)
        return out

    def body_of(self, fn):
        """For `async fn` (whose MIR just builds the coroutine) return the coroutine body;
        also sees through #[async_trait]'s Box::pin(async move {..})."""
        cur = fn
        for _ in range(3):
            aggs = [st["rv"]["def"] for _, _, st in cur.stmts()
                    if st["rv"]["rv"] == "agg" and st["rv"].get("agg") in ("coroutine", "coroutine_closure")]
            ncalls = sum(1 for _ in cur.calls())
            if len(aggs) == 1 and ncalls <= 2 and aggs[0] in self.F:
                cur = self.F[aggs[0]]
                if cur.raw.get("coroutine"):
                    return cur
            else:
                break
        return cur

    def impl_methods(self):
        """trait method path -> [impl method ids] for traits implemented in this crate."""
        if self._impl_methods is None:
            m = defaultdict(list)
            for i in self.impls:
                for it in i["items"]:
                    if it["kind"] == "Fn":
                        m[i["trait"] + "::" + it["name"]].append(it["id"])
            self._impl_methods = m
        return self._impl_methods

    def callers_of(self, pattern):
        rx = re.compile(pattern)
        out = []
        for f in self.F.values():
            for bb, t in f.calls():
                c = t.get("callee") or ""
                if rx.search(c) or (t.get("resolved") and rx.search(t["resolved"])):
                    out.append((f, bb, t))
        return out

    def adt_of_type(self, ty):
        """ADT id for a type string: the longest ADT id that prefixes the type (ADTs nested in generic
        items print as `a::B<C>::f::{closure#0}::Out<..>`, so cutting at the first `<` is wrong)."""
        t = re.sub(r"^(&('[^ ]+ )?(mut )?)+", "", ty)
        simple = t.split("<")[0]
        best = simple if simple in self.adts else None
        if best is None or "<" in t[len(simple):].split(">")[-1]:
            for a in self.adts:
                if t.startswith(a) and (len(t) == len(a) or t[len(a)] == "<") and (best is None or len(a) > len(best)):
                    best = a
        return best if best is not None else simple

    def adt_fields(self, adt, variant=None):
        a = self.adts.get(adt)
        if not a:
            return None
        for v in a["variants"]:
            if variant is None or v["name"] == variant:
                return v["fields"]
        return None

    def call_edges(self, f, local_traits_only=True):
        """Crate-local callees of f: resolved instances, closures it builds, fn items it
        names as values, and class-hierarchy targets for traits *defined in this crate*."""
        out = set()
        im = self.impl_methods()
        for bb, t in f.calls():
            c = t.get("callee")
            if not c:
                continue
            r = t.get("resolved")
            if r and r in self.F:
                out.add(r)
            if c in self.F:
                out.add(c)
            if not r:
                trait = c.rsplit("::", 1)[0]
                if (not local_traits_only) or self.is_local_trait(trait):
                    for m in im.get(c, []):
                        if m in self.F:
                            out.add(m)
        for bb, i, st in f.stmts():
            rv = st["rv"]
            if rv["rv"] == "agg" and rv.get("agg") in ("closure", "coroutine", "coroutine_closure") and rv["def"] in self.F:
                out.add(rv["def"])

        def walk(o):
            if isinstance(o, dict):
                if o.get("k") == "const" and o.get("fn") and o["fn"] in self.F:
                    out.add(o["fn"])
                for v in o.values():
                    walk(v)
            elif isinstance(o, list):
                for v in o:
                    walk(v)
        walk(f.blocks)
        return out

    def is_local_trait(self, trait):
        if not hasattr(self, "_local_traits"):
            self._local_traits = set(self.raw.get("traits", []))
            if not self._local_traits:
                # fall back: traits whose impl list is non-empty and whose path has no foreign crate root
                roots = ("std::", "core::", "alloc::", "serde::", "schemars::", "futures", "hyper", "http", "tokio", "slog", "syn::", "quote::", "proc_macro2::", "<", "serde_", "async_trait", "tower", "rustls", "bytes::", "tracing")
                for i in self.impls:
                    if not i["trait"].startswith(roots):
                        self._local_traits.add(i["trait"])
        # strip generic args: `extractor::common::RequestExtractor` vs `RequestExtractor<..>`
        base = trait.split("<")[0]
        return base in self._local_traits or trait in self._local_traits

    def region(self, roots, local_traits_only=True, stop=()):
        seen = set()
        st = [r for r in roots if r in self.F]
        while st:
            x = st.pop()
            if x in seen or x in stop:
                continue
            seen.add(x)
            st.extend(self.call_edges(self.F[x], local_traits_only))
        return seen


class Fn:
    def __init__(self, facts, fid, raw):
        self.facts = facts
        self.id = fid
        self.raw = raw
        self.blocks = raw["blocks"]
        self.n = len(self.blocks)
        self.argc = raw["argc"]
        self._succ = None
        self._pred = None
        self._dom = None
        self._defs = None
        self._pruned = False
        self.names = defaultdict(list)  # debug name -> places
        for nm in raw["names"]:
            self.names[nm["name"]].append(nm["pl"])

    def __repr__(self):
        return "<Fn %s>" % self.id

    # ----------------------------------------------------------- locations
    def file(self):
        f = self.raw["span"].split(":")[0]
        if f.startswith("/") and self.raw.get("parent") in self.facts.F:
            # body produced by a foreign macro (e.g. try_stream!): report the enclosing function's file
            return self.facts.F[self.raw["parent"]].file()
        return f

    def loc(self, bb=None):
        if bb is None:
            if self.raw["span"].startswith("/") and self.raw.get("parent") in self.facts.F:
                return self.facts.F[self.raw["parent"]].loc()
            return ":".join(self.raw["span"].split(":")[:2])
        return "%s:%d" % (self.file(), self.blocks[bb]["term"]["line"])

    def local_name(self, l):
        for nm, pls in self.names.items():
            for pl in pls:
                if pl["l"] == l and not pl["p"]:
                    return nm
        return None

    def local_by_name(self, name):
        """Locals (whole, unprojected) carrying this user variable name."""
        return [pl["l"] for pl in self.names.get(name, []) if not pl["p"]]

    def upvar_name(self, field_index):
        """Name of captured variable stored in closure-env field i (from var_debug_info)."""
        for nm, pls in self.names.items():
            for pl in pls:
                if pl["l"] == 1:
                    fs = [e for e in pl["p"] if isinstance(e, dict) and "f" in e]
                    if fs and fs[0]["f"] == field_index:
                        return nm
        return None

    def local_ty(self, l):
        return self.raw["locals"][l]

    # ----------------------------------------------------------- CFG
    def _raw_succ(self, blk):
        t = blk["term"]
        k = t["t"]
        if k in ("goto", "drop", "falseunwind", "assert", "falseedge", "yield"):
            return [t["to"]]
        if k == "switch":
            return list(dict.fromkeys([x[1] for x in t["targets"]] + [t["otherwise"]]))
        if k == "call":
            return [t["to"]] if "to" in t else []
        return []

    def succ(self, b):
        if self._succ is None:
            self._succ = [self._raw_succ(blk) for blk in self.blocks]
            self._prune_known_variants()
        return self._succ[b]

    def _known_variant_of(self, op, defs, depth=0):
        """If operand certainly holds a known enum variant (single definition: an ADT
        aggregate, or Try::branch / FromResidual of one), return (adt, variant-index)."""
        if op.get("k") not in ("copy", "move") or op["pl"]["p"] or depth > 3:
            return None
        ds = defs.get(op["pl"]["l"], [])
        if len(ds) != 1:
            return None
        bb, kind, node = ds[0]
        adts = self.facts.adts
        if kind == "assign" and node["pl"]["p"] == []:
            rv = node["rv"]
            if rv["rv"] == "agg" and rv.get("agg") == "adt":
                a = adts.get(rv["adt"])
                if a and a["kind"] == "enum":
                    for i, v in enumerate(a["variants"]):
                        if v["name"] == rv["variant"]:
                            return (rv["adt"], i)
            if rv["rv"] == "use":
                return self._known_variant_of(rv["op"], defs, depth + 1)
        if kind == "call" and node["dest"]["p"] == [] and (node.get("callee") or "").endswith("ops::Try::branch"):
            inner = self._known_variant_of(node["args"][0], defs, depth + 1)
            if inner and inner[0] in ("std::result::Result", "std::option::Option"):
                # Result::Err / Option::None -> ControlFlow::Break ; Ok/Some -> Continue
                is_break = (inner[0] == "std::result::Result" and inner[1] == 1) or \
                           (inner[0] == "std::option::Option" and inner[1] == 0)
                return ("std::ops::ControlFlow", 1 if is_break else 0)
        return None

    def _prune_known_variants(self):
        """Remove switch edges that are infeasible because the scrutinee is a local whose
        only definition is an aggregate of a known enum variant (e.g. `Err(x)?`)."""
        defs = self.defs()
        for blk in self.blocks:
            t = blk["term"]
            if t["t"] != "switch" or t["discr"].get("k") not in ("copy", "move"):
                continue
            d = t["discr"]["pl"]
            if d["p"]:
                continue
            dd = defs.get(d["l"], [])
            if len(dd) != 1 or dd[0][1] != "assign":
                continue
            rv = dd[0][2]["rv"]
            if rv["rv"] == "use" and rv["op"].get("k") == "const" and rv["op"].get("val") and "int" in rv["op"]["val"] \
                    and not rv["op"].get("path") and dd[0][2]["pl"]["p"] == []:
                # switch on a literal constant (macro-generated `if false {..}`)
                cv = rv["op"]["val"]["int"]
                tgt = t["otherwise"]
                for val, to in t["targets"]:
                    if val == cv:
                        tgt = to
                self._succ[blk["bb"]] = [tgt]
                self._pruned = True
                continue
            if rv["rv"] != "discr" or rv["pl"]["p"]:
                continue
            kv = self._known_variant_of({"k": "copy", "pl": rv["pl"]}, defs)
            if kv is None:
                continue
            tgt = t["otherwise"]
            for val, to in t["targets"]:
                if val == kv[1]:
                    tgt = to
            self._succ[blk["bb"]] = [tgt]
            self._pruned = True

    def preds(self, b):
        if self._pred is None:
            self._pred = [[] for _ in range(self.n)]
            for i in range(self.n):
                for s in self.succ(i):
                    self._pred[s].append(i)
        return self._pred[b]

    def reachable(self, start=0, avoid=(), avoid_edges=()):
        avoid = set(avoid)
        avoid_edges = set(avoid_edges)
        seen = set()
        st = [start] if not isinstance(start, (list, set, tuple)) else list(start)
        while st:
            b = st.pop()
            if b in seen or b in avoid:
                continue
            seen.add(b)
            for s in self.succ(b):
                if (b, s) in avoid_edges:
                    continue
                st.append(s)
        return seen

    def dominators(self):
        if self._dom is None:
            reach = self.reachable(0)
            order = sorted(reach)
            dom = {b: set(order) for b in order}
            dom[0] = {0}
            changed = True
            while changed:
                changed = False
                for b in order:
                    if b == 0:
                        continue
                    ps = [p for p in self.preds(b) if p in reach]
                    new = set(order)
                    for p in ps:
                        new &= dom[p]
                    new = new | {b}
                    if new != dom[b]:
                        dom[b] = new
                        changed = True
            self._dom = dom
        return self._dom

    def dominates(self, a, b):
        """Block a dominates block b (b unreachable counts as dominated)."""
        d = self.dominators()
        if b not in d:
            return True
        return a in d[b]

    def edge_dominates(self, src, dst, site):
        """Every path from entry to `site` uses the edge src->dst."""
        return site not in self.reachable(0, avoid_edges=[(src, dst)])

    def must_pass(self, sites, start=0, exits=None):
        """Every path from `start` to a normal exit (Return, or the given exit blocks)
        passes through one of `sites` (blocks)."""
        reach = self.reachable(start, avoid=sites)
        if exits is None:
            exits = [b["bb"] for b in self.blocks if b["term"]["t"] == "return"]
        return not any(e in reach for e in exits)

    def debug_only_blocks(self):
        """Blocks reachable only through the `true` edge of a switch on a *literal* `true` written by a macro
        expansion — the `if cfg!(debug_assertions) { .. }` wrapper of debug_assert!/debug_assert_eq!.  In a
        release build that literal is `false` and the block does not exist; the panic censuses (which describe
        the shipped server) skip sites inside them."""
        if getattr(self, "_dbg_only", None) is not None:
            return self._dbg_only
        self.succ(0)
        edges = []
        defs = self.defs()
        for blk in self.blocks:
            t = blk["term"]
            if t["t"] != "switch" or not t.get("exp") or t["discr"].get("k") not in ("copy", "move") or t["discr"]["pl"]["p"]:
                continue
            dd = defs.get(t["discr"]["pl"]["l"], [])
            if len(dd) != 1 or dd[0][1] != "assign":
                continue
            rv = dd[0][2]["rv"]
            if rv["rv"] == "use" and rv["op"].get("k") == "const" and rv["op"].get("ty") == "bool" and not rv["op"].get("path") \
                    and (rv["op"].get("val") or {}).get("int") == 1:
                ft = [b for v, b in t["targets"] if v == 0]
                edges.append((blk["bb"], t["otherwise"], ft[0] if ft else None))
        if not edges:
            self._dbg_only = set()
            return self._dbg_only
        def raw_reach(start, avoid):
            seen, st = set(), [start]
            while st:
                b = st.pop()
                if b in seen or b == avoid:
                    continue
                seen.add(b)
                st.extend(self._raw_succ(self.blocks[b]))
            return seen
        out = set()
        for sb, tt, ft in edges:
            if ft is None:
                continue
            # (the constant-switch pruner already removed the `false` edge; reason on the raw successors)
            region = raw_reach(tt, sb) - raw_reach(ft, sb)   # cut loops at the switch itself
            # a debug assertion is a small region that only evaluates a condition and panics: it contains a
            # core::panicking call and no yield/return (macro-generated `if true {..}` wrappers of real code,
            # e.g. inside tokio::select!, are not debug-only)
            has_panic = any(self.blocks[b]["term"]["t"] == "call" and re.match(r"core::panicking::|std::rt::(begin_panic|panic_fmt)", self.blocks[b]["term"].get("callee") or "") for b in region)
            plain = all(self.blocks[b]["term"]["t"] not in ("yield", "return") for b in region)
            if region and len(region) <= 24 and has_panic and plain:
                out |= region
        self._dbg_only = out
        return self._dbg_only

    def returns(self):
        return [b["bb"] for b in self.blocks if b["term"]["t"] == "return" and b["bb"] in self.reachable(0)]

    def loop_blocks(self):
        """Blocks that lie on a cycle."""
        out = set()
        for b in self.reachable(0):
            for s in self.succ(b):
                if b in self.reachable(s):
                    out.add(b)
                    break
        return out

    def is_diverging(self, b, limit=80):
        """No Return/Yield reachable from b (panic / unreachable / abort)."""
        seen = set()
        st = [b]
        while st:
            x = st.pop()
            if x in seen:
                continue
            seen.add(x)
            if len(seen) > limit:
                return False
            t = self.blocks[x]["term"]
            if t["t"] in ("return", "yield"):
                return False
            st.extend(self.succ(x))
        return True

    # ----------------------------------------------------------- queries
    def calls(self, pattern=None):
        rx = re.compile(pattern) if pattern else None
        for blk in self.blocks:
            t = blk["term"]
            if t["t"] == "call" and not blk["cleanup"]:
                if rx is None or rx.search(t.get("callee") or "") or (t.get("resolved") and rx.search(t["resolved"])):
                    yield blk["bb"], t

    def live_calls(self, pattern=None):
        r = self.reachable(0)
        return [(bb, t) for bb, t in self.calls(pattern) if bb in r]

    def stmts(self):
        for blk in self.blocks:
            if blk["cleanup"]:
                continue
            for i, st in enumerate(blk["st"]):
                if st["s"] == "assign":
                    yield blk["bb"], i, st

    def const_uses(self, pattern):
        """Blocks (non-cleanup, reachable) that mention a named constant matching pattern."""
        rx = re.compile(pattern)
        out = []
        reach = self.reachable(0)

        def has(o):
            if isinstance(o, dict):
                if o.get("k") == "const" and o.get("path") and rx.search(o["path"]):
                    return True
                return any(has(v) for v in o.values())
            if isinstance(o, list):
                return any(has(v) for v in o)
            return False
        for blk in self.blocks:
            if blk["cleanup"] or blk["bb"] not in reach:
                continue
            if has(blk["st"]) or has(blk["term"]):
                out.append(blk["bb"])
        return out

    def aggregates(self, adt_pattern, variant=None):
        rx = re.compile(adt_pattern)
        for bb, i, st in self.stmts():
            rv = st["rv"]
            if rv["rv"] == "agg" and rv.get("agg") == "adt" and rx.search(rv["adt"]) and (variant is None or rv["variant"] == variant):
                yield bb, i, st

    def switches(self):
        for blk in self.blocks:
            if blk["term"]["t"] == "switch" and not blk["cleanup"]:
                yield blk["bb"], blk["term"]

    def defs(self):
        """local -> list of (bb, kind, node) writing the local or a projection of it."""
        if self._defs is None:
            d = defaultdict(list)
            for blk in self.blocks:
                for st in blk["st"]:
                    if st["s"] == "assign":
                        d[st["pl"]["l"]].append((blk["bb"], "assign", st))
                t = blk["term"]
                if t["t"] == "call":
                    d[t["dest"]["l"]].append((blk["bb"], "call", t))
                elif t["t"] == "yield" and "resume_pl" in t:
                    d[t["resume_pl"]["l"]].append((blk["bb"], "yield", t))
            self._defs = d
        return self._defs

    def switch_on(self, bb):
        """For a switch block: describe what is tested.
        Returns dict(kind='discr', place=.., adt=.., variants={value:name}) or
        dict(kind='bool', def=(bb,kind,node)) or dict(kind='other')."""
        t = self.blocks[bb]["term"]
        d = t["discr"]
        if d.get("k") not in ("copy", "move") or d["pl"]["p"]:
            return {"kind": "other"}
        ds = self.defs().get(d["pl"]["l"], [])
        if len(ds) != 1:
            return {"kind": "other", "defs": ds}
        dbb, kind, node = ds[0]
        if kind == "assign" and node["rv"]["rv"] == "discr":
            ty = node["rv"]["ty"]
            adt = self.facts.adt_of_type(ty)
            a = self.facts.adts.get(adt)
            names = {}
            if a:
                names = {i: v["name"] for i, v in enumerate(a["variants"])}
            return {"kind": "discr", "place": node["rv"]["pl"], "adt": adt, "ty": ty, "variants": names}
        ty = self.local_ty(d["pl"]["l"])
        if ty == "bool":
            return {"kind": "bool", "def": ds[0]}
        return {"kind": "other", "def": ds[0]}

    def switch_target(self, bb, value):
        t = self.blocks[bb]["term"]
        for v, b in t["targets"]:
            if v == value:
                return b
        return t["otherwise"]

    def bool_edges(self, bb):
        """(true_target, false_target) of a bool switch."""
        t = self.blocks[bb]["term"]
        f = None
        for v, b in t["targets"]:
            if v == 0:
                f = b
        return (t["otherwise"], f) if f is not None else (None, None)

    # ----------------------------------------------------------- slicing
    def slice(self, operand, max_nodes=6000, stop_at_calls=None, through=None):
        """Flow-insensitive backward slice of an operand (dict) or place.

        Returns a Slice: atoms (origins), callees [(callee, bb, term)], places visited.
        `stop_at_calls`: regex; call results matching it are recorded as atoms but their
        arguments are not followed.  `through`: if given, a regex of callees whose
        arguments ARE followed; all other calls stop (value-preserving chain mode).
        """
        atoms = set()
        callees = []
        seen = set()
        work = []
        stop_rx = re.compile(stop_at_calls) if stop_at_calls else None
        thr_rx = re.compile(through) if through else None

        def push_pl(pl):
            work.append(json.dumps(pl, sort_keys=True))

        def push_op(op):
            k = op.get("k")
            if k in ("copy", "move"):
                push_pl(op["pl"])
            elif k == "const":
                if op.get("fn"):
                    atoms.add(("fnitem", op["fn"]))
                elif op.get("path"):
                    atoms.add(("const", op["path"], json.dumps(op.get("val"))))
                else:
                    atoms.add(("lit", json.dumps(op.get("val")), op["ty"]))

        if "k" in operand:
            push_op(operand)
        else:
            push_pl(operand)
        while work:
            item = work.pop()
            if item in seen:
                continue
            seen.add(item)
            if len(seen) > max_nodes:
                atoms.add(("budget",))
                break
            pl = json.loads(item)
            l = pl["l"]
            proj = pl["p"]
            if 1 <= l <= self.argc:
                atoms.add(("param", l, tuple(_projkey(proj))))
            # locals used as index in projections
            for e in proj:
                if isinstance(e, dict) and "idx" in e:
                    push_pl({"l": e["idx"], "p": []})
            for bb, kind, node in self.defs().get(l, []):
                if kind == "assign":
                    rv = node["rv"]
                    k = rv["rv"]
                    # field-sensitivity: a write to a *different* field of the same local is irrelevant
                    if node["pl"]["p"] and proj and not _proj_compatible(node["pl"]["p"], proj):
                        continue
                    if k == "use" and proj and node["pl"]["p"] == [] and rv["op"].get("k") in ("copy", "move"):
                        # x = y; a read of x.f is a read of y.f (keep the projection across whole-value copies)
                        push_pl({"l": rv["op"]["pl"]["l"], "p": list(rv["op"]["pl"]["p"]) + list(proj)})
                    elif k in ("use", "cast", "repeat"):
                        push_op(rv["op"])
                    elif k == "unop":
                        atoms.add(("unop", rv["op"]))
                        push_op(rv["a"])
                    elif k in ("ref", "copyderef", "discr", "rawptr"):
                        push_pl(rv["pl"])
                        if k == "discr":
                            atoms.add(("discr",))
                    elif k == "binop":
                        atoms.add(("binop", rv["op"]))
                        push_op(rv["a"])
                        push_op(rv["b"])
                    elif k == "agg":
                        tag = rv.get("adt") or rv.get("def") or rv["agg"]
                        fsel = None
                        if node["pl"]["p"] == [] and rv.get("variant") and proj and isinstance(proj[0], dict) and "dc" in proj[0] and proj[0]["dc"] is not None \
                                and proj[0]["dc"] != rv["variant"]:
                            continue    # `(x as Ok).0` never reads a value built as `Err(..)`
                        if node["pl"]["p"] == []:
                            for e in proj:
                                if isinstance(e, dict) and "f" in e:
                                    fsel = e["f"]
                                    break
                                if e == "*":
                                    break
                        if fsel is not None and fsel < len(rv["ops"]):
                            push_op(rv["ops"][fsel])
                        else:
                            atoms.add(("agg", tag, rv.get("variant")))
                            for o in rv["ops"]:
                                push_op(o)
                    else:
                        atoms.add(("rv", k))
                elif kind == "call":
                    callee = node.get("callee") or "<indirect>"
                    callees.append((callee, bb, node))
                    atoms.add(("call", callee, bb))
                    if stop_rx and stop_rx.search(callee):
                        continue
                    if thr_rx and not thr_rx.search(callee):
                        continue
                    for a in node["args"]:
                        push_op(a)
                    if not node.get("callee") and node.get("callee_op"):
                        push_op(node["callee_op"])
                elif kind == "yield":
                    atoms.add(("resume", bb))
        return Slice(self, atoms, callees, seen)

    def uses_of_local(self, l):
        """(bb, kind, node) for every statement/terminator reading local l."""
        out = []

        def mentions(o):
            if isinstance(o, dict):
                if "l" in o and "p" in o:
                    if o["l"] == l:
                        return True
                    return any(isinstance(e, dict) and e.get("idx") == l for e in o["p"])
                return any(mentions(v) for v in o.values())
            if isinstance(o, list):
                return any(mentions(v) for v in o)
            return False
        for blk in self.blocks:
            if blk["cleanup"]:
                continue
            for st in blk["st"]:
                if st["s"] == "assign" and mentions(st["rv"]):
                    out.append((blk["bb"], "assign", st))
            t = blk["term"]
            if t["t"] == "call" and (mentions(t["args"]) or mentions(t.get("callee_op"))):
                out.append((blk["bb"], "call", t))
            elif t["t"] == "switch" and mentions(t["discr"]):
                out.append((blk["bb"], "switch", t))
            elif t["t"] == "yield" and mentions(t["value"]):
                out.append((blk["bb"], "yield", t))
            elif t["t"] == "drop" and mentions(t["pl"]):
                out.append((blk["bb"], "drop", t))
        return out

    def forward(self, start_places, max_nodes=4000):
        """Forward taint: locals that (transitively) receive a value derived from the
        start locals.  Returns (set of locals, list of (bb,kind,node) sinks reached)."""
        tainted = set(start_places)
        sinks = []
        work = list(start_places)
        seen_nodes = set()
        while work:
            l = work.pop()
            for bb, kind, node in self.uses_of_local(l):
                key = (bb, kind, id(node))
                if key in seen_nodes:
                    continue
                seen_nodes.add(key)
                sinks.append((bb, kind, node))
                if kind == "assign":
                    d = node["pl"]["l"]
                elif kind == "call":
                    d = node["dest"]["l"]
                    # &mut receiver gets tainted by pushes/inserts
                    for a in node["args"][:1]:
                        if a.get("k") in ("copy", "move") and a["pl"]["l"] != l and not a["pl"]["p"]:
                            ds = self.defs().get(a["pl"]["l"], [])
                            for _, k2, n2 in ds:
                                if k2 == "assign" and n2["rv"]["rv"] == "ref" and n2["rv"]["mut"]:
                                    t2 = n2["rv"]["pl"]["l"]
                                    if t2 not in tainted:
                                        tainted.add(t2)
                                        work.append(t2)
                else:
                    continue
                if d not in tainted:
                    tainted.add(d)
                    work.append(d)
            if len(tainted) > max_nodes:
                break
        return tainted, sinks

    # ----------------------------------------------------------- path-sensitive boolean facts
    def bool_states_at(self, site, max_states=40000):
        """Path-sensitive facts about boolean tests on every path from entry to block `site`.

        Each boolean-producing call or comparison is an *atom* keyed by its block: ("call", bb) or
        ("cmp", bb, stmt-index).  The analysis tracks, per path, which atom (possibly negated) or
        constant every bool local holds — through copies, `!`, `a || b` / `a && b` lowering, `let flag = ..;
        if flag`, `match flag` — and records the truth value an atom must have had for the path to
        take each switch edge.  Returns a list of dicts {atom: bool}, one per distinct path state
        reaching `site` (empty list: site unreachable), or None if the state budget is exceeded.
        A guard expressed as `edge_dominates` is the special case of one switch directly on one atom."""
        memo = self.__dict__.setdefault("_bool_states_memo", {})
        if site in memo:
            return memo[site]
        memo[site] = self._bool_states_at(site, max_states)
        return memo[site]

    def _bool_states_at(self, site, max_states):
        self.succ(0)
        atom_of_call = {}
        for blk in self.blocks:
            t = blk["term"]
            if t["t"] == "call" and not blk["cleanup"] and not t["dest"]["p"] and self.local_ty(t["dest"]["l"]) == "bool":
                atom_of_call[blk["bb"]] = ("call", blk["bb"])
        results = []
        seen = set()
        # state: (bb, vals: tuple sorted (local, val), facts: tuple sorted (atom, bool))
        # val: ("c", b) | ("a", atom, neg)
        start = (0, (), ())
        work = [start]
        n = 0
        while work:
            bb, vals_t, facts_t = work.pop()
            key = (bb, vals_t, facts_t)
            if key in seen:
                continue
            seen.add(key)
            n += 1
            if n > max_states:
                return None
            vals = dict(vals_t)
            facts = dict(facts_t)
            if bb == site:
                results.append(facts)
                continue
            blk = self.blocks[bb]
            for i, st in enumerate(blk["st"]):
                if st["s"] != "assign" or st["pl"]["p"]:
                    continue
                l = st["pl"]["l"]
                rv = st["rv"]
                k = rv["rv"]
                new = None
                if k == "use":
                    op = rv["op"]
                    if op.get("k") == "const" and op.get("val") and "int" in op["val"] and op.get("ty") == "bool":
                        new = ("c", bool(op["val"]["int"]))
                    elif op.get("k") in ("copy", "move") and not op["pl"]["p"] and op["pl"]["l"] in vals:
                        new = vals[op["pl"]["l"]]
                elif k == "unop" and rv["op"] == "Not":
                    op = rv["a"]
                    if op.get("k") in ("copy", "move") and not op["pl"]["p"] and op["pl"]["l"] in vals:
                        v = vals[op["pl"]["l"]]
                        new = ("c", not v[1]) if v[0] == "c" else ("a", v[1], not v[2])
                elif k == "binop" and rv["op"] in ("Eq", "Ne", "Lt", "Le", "Gt", "Ge") and self.local_ty(l) == "bool":
                    atom = ("cmp", bb, i)
                    facts.pop(atom, None)
                    for x in [x for x, v in vals.items() if v[0] == "a" and v[1] == atom]:
                        del vals[x]
                    new = ("a", atom, False)
                if new is not None:
                    vals[l] = new
                else:
                    vals.pop(l, None)
            t = blk["term"]
            if t["t"] == "call":
                d = t["dest"]
                if not d["p"]:
                    vals.pop(d["l"], None)
                if bb in atom_of_call:
                    atom = atom_of_call[bb]
                    facts.pop(atom, None)
                    for x in [x for x, v in vals.items() if v[0] == "a" and v[1] == atom]:
                        del vals[x]
                    vals[d["l"]] = ("a", atom, False)
            succs = self._succ[bb]
            if t["t"] == "switch" and len(succs) > 1:
                dl = t["discr"]["pl"]["l"] if t["discr"].get("k") in ("copy", "move") and not t["discr"]["pl"]["p"] else None
                v = vals.get(dl) if dl is not None else None
                false_t = None
                for val, tgt in t["targets"]:
                    if val == 0:
                        false_t = tgt
                if v is not None and false_t is not None and self.local_ty(dl) == "bool":
                    true_t = t["otherwise"]
                    if v[0] == "c":
                        succ_list = [(true_t if v[1] else false_t, None)]
                    else:
                        atom, neg = v[1], v[2]
                        succ_list = []
                        for tgt, holds in ((true_t, True), (false_t, False)):
                            av = holds != neg      # value the atom must have for this edge
                            if atom in facts and facts[atom] != av:
                                continue
                            succ_list.append((tgt, (atom, av)))
                    for tgt, fact in succ_list:
                        if tgt not in succs and tgt is not None:
                            # edge pruned by the static pruner
                            continue
                        f2 = dict(facts)
                        if fact:
                            f2[fact[0]] = fact[1]
                        work.append((tgt, tuple(sorted(vals.items())), tuple(sorted(f2.items()))))
                    continue
            vt, ft = tuple(sorted(vals.items())), tuple(sorted(facts.items()))
            for sx in succs:
                work.append((sx, vt, ft))
        return results

    def guarded_by(self, site, atoms_true=(), atoms_false=()):
        """Every path to `site` has established one of `atoms_true` as true or one of `atoms_false` as
        false?  atoms are ("call", bb) / ("cmp", bb, i).  Returns (ok, counterexample-facts or None);
        unreachable sites are vacuously guarded; budget overflow counts as not guarded."""
        states = self.bool_states_at(site)
        if states is None:
            return False, {"budget": True}
        for fs in states:
            if any(fs.get(a) is True for a in atoms_true) or any(fs.get(a) is False for a in atoms_false):
                continue
            return False, fs
        return True, None

    def guarded_by_all(self, site, atoms_true=(), atoms_false=()):
        """Every path to `site` has established ALL of `atoms_true` as true and ALL of `atoms_false` as false."""
        states = self.bool_states_at(site)
        if states is None:
            return False, {"budget": True}
        for fs in states:
            if all(fs.get(a) is True for a in atoms_true) and all(fs.get(a) is False for a in atoms_false):
                continue
            return False, fs
        return True, None

    def dump(self):
        out = ["fn %s  [%s]  argc=%d%s" % (self.id, self.raw["span"], self.argc, " coroutine" if self.raw.get("coroutine") else "")]
        for nm, pls in sorted(self.names.items()):
            out.append("   name %s = %s" % (nm, ", ".join(pl_str(p) for p in pls)))
        self.succ(0)
        for blk in self.blocks:
            out.append(" bb%d%s:  (succ %s)" % (blk["bb"], " [cleanup]" if blk["cleanup"] else "", self._succ[blk["bb"]]))
            for st in blk["st"]:
                if st["s"] == "assign":
                    out.append("     %s = %s   // L%d" % (pl_str(st["pl"]), rv_str(st["rv"]), st["line"]))
                else:
                    out.append("     %s" % st["s"])
            out.append("     %s   // L%d%s" % (term_str(blk["term"]), blk["term"]["line"], " exp" if blk["term"]["exp"] else ""))
        return "\n".join(out)


class Slice:
    def __init__(self, fn, atoms, callees, places):
        self.fn = fn
        self.atoms = atoms
        self.callees = callees
        self.places = places

    def calls(self, pattern):
        rx = re.compile(pattern)
        return [(c, bb, t) for c, bb, t in self.callees if rx.search(c) or (t.get("resolved") and rx.search(t["resolved"]))]

    def has_call(self, pattern):
        return bool(self.calls(pattern))

    def callee_names(self):
        return sorted(set(c for c, _, _ in self.callees))

    def params(self):
        return sorted(set(a[1] for a in self.atoms if a[0] == "param"))

    def param_fields(self):
        return sorted(set((a[1], a[2]) for a in self.atoms if a[0] == "param"))

    def consts(self):
        return [a for a in self.atoms if a[0] in ("const", "lit")]

    def has_const_path(self, pattern):
        rx = re.compile(pattern)
        return any(a[0] == "const" and rx.search(a[1]) for a in self.atoms)

    def has_str(self, s):
        needle = json.dumps({"str": s})
        return any(a[0] in ("const", "lit") and a[-2 if a[0] == "lit" else 2] == needle for a in self.atoms) or \
            any(a[0] == "const" and a[2] == needle for a in self.atoms)

    def locals(self):
        return set(json.loads(p)["l"] for p in self.places)

    def touches_local(self, l):
        return l in self.locals()

    def reads_field(self, name):
        for p in self.places:
            for e in json.loads(p)["p"]:
                if isinstance(e, dict) and e.get("n") == name:
                    return True
        return False


def _projkey(proj):
    out = []
    for e in proj:
        if e == "*":
            out.append("*")
        elif isinstance(e, dict) and "f" in e:
            out.append("f%d:%s" % (e["f"], e.get("n", "")))
        elif isinstance(e, dict) and "dc" in e:
            out.append("as:%s" % e["dc"])
        else:
            out.append("?")
    return out


def _proj_compatible(wp, rp):
    """A write through projection wp can affect a read through projection rp
    unless they select different fields at the same depth."""
    for a, b in zip(wp, rp):
        if isinstance(a, dict) and isinstance(b, dict) and "f" in a and "f" in b:
            if a["f"] != b["f"]:
                return False
        elif a != b:
            return True
    return True


# --------------------------------------------------------------------------- predicate normalisation
_FLIP = {"Lt": "Gt", "Gt": "Lt", "Le": "Ge", "Ge": "Le", "Eq": "Eq", "Ne": "Ne"}
_NEG = {"Lt": "Ge", "Ge": "Lt", "Gt": "Le", "Le": "Gt", "Eq": "Ne", "Ne": "Eq"}
_CALLCMP = {"lt": "Lt", "le": "Le", "gt": "Gt", "ge": "Ge", "eq": "Eq", "ne": "Ne"}


def comparison_of(fn, switch_bb):
    """If the bool switch at switch_bb tests a comparison (MIR BinaryOp or a
    PartialOrd/PartialEq call, possibly negated), return
    dict(op=<Lt|Le|..> holding on the TRUE edge, a=operand, b=operand, true=bb, false=bb)."""
    info = fn.switch_on(switch_bb)
    if info["kind"] != "bool":
        return None
    tb, fb = fn.bool_edges(switch_bb)
    dbb, kind, node = info["def"]
    neg = False
    for _ in range(4):
        if kind == "assign" and node["rv"]["rv"] == "unop" and node["rv"]["op"] == "Not":
            neg = not neg
            op = node["rv"]["a"]
        elif kind == "assign" and node["rv"]["rv"] == "use":
            op = node["rv"]["op"]
        else:
            break
        if op.get("k") not in ("copy", "move") or op["pl"]["p"]:
            return None
        ds = fn.defs().get(op["pl"]["l"], [])
        if len(ds) != 1:
            return None
        dbb, kind, node = ds[0]
    if kind == "assign" and node["rv"]["rv"] == "binop" and node["rv"]["op"] in _FLIP:
        o, a, b = node["rv"]["op"], node["rv"]["a"], node["rv"]["b"]
    elif kind == "call":
        m = re.search(r"cmp::Partial(?:Ord|Eq)::(lt|le|gt|ge|eq|ne)$", node.get("callee") or "")
        if not m:
            return None
        o, a, b = _CALLCMP[m.group(1)], node["args"][0], node["args"][1]
    else:
        return None
    if neg:
        o = _NEG[o]
    return {"op": o, "a": a, "b": b, "true": tb, "false": fb, "bb": switch_bb}


def normalise_le(cmp):
    """Express a comparison as (x, y, edge) meaning: on `edge` ('true'/'false') x <= y holds,
    or (x, y, edge, strict=True) for x < y.  Returns list of facts [(rel, x, y, edge)]."""
    o, a, b = cmp["op"], cmp["a"], cmp["b"]
    out = []
    # true edge: a o b ; false edge: a NEG[o] b
    for edge, op in (("true", o), ("false", _NEG[o])):
        if op == "Le":
            out.append(("le", a, b, edge))
        elif op == "Ge":
            out.append(("le", b, a, edge))
        elif op == "Lt":
            out.append(("lt", a, b, edge))
        elif op == "Gt":
            out.append(("lt", b, a, edge))
        elif op == "Eq":
            out.append(("eq", a, b, edge))
        elif op == "Ne":
            out.append(("ne", a, b, edge))
    return out


# --------------------------------------------------------------------------- helper inlining
_KNOWN = None


def known_functions():
    """tables/known_functions.txt: the functions the rules were written against (membership test only)."""
    global _KNOWN
    if _KNOWN is None:
        import os
        p = os.path.join(os.path.dirname(os.path.dirname(os.path.abspath(__file__))), "tables", "known_functions.txt")
        _KNOWN = set()
        if os.path.exists(p):
            for line in open(p):
                line = line.rstrip("\n")
                if line and not line.startswith("#") and "\t" in line:
                    _KNOWN.add(tuple(line.split("\t", 1)))
        else:
            _KNOWN = None
    return _KNOWN


def _remap(o, loff, boff):
    """Deep copy of a MIR fragment with locals shifted by loff and block numbers by boff."""
    if isinstance(o, list):
        return [_remap(x, loff, boff) for x in o]
    if not isinstance(o, dict):
        return o
    if "l" in o and "p" in o and len(o) == 2:
        return {"l": o["l"] + loff, "p": [({**e, "idx": e["idx"] + loff} if isinstance(e, dict) and "idx" in e else e) for e in o["p"]]}
    out = {}
    for k, v in o.items():
        if k in ("to", "otherwise", "imag", "bb") and isinstance(v, int):
            out[k] = v + boff
        elif k == "drop" and isinstance(v, int):
            out[k] = v + boff if v >= 0 else v
        elif k == "targets" and isinstance(v, list):
            out[k] = [[a, b + boff] for a, b in v]
        else:
            out[k] = _remap(v, loff, boff)
    return out


# ---------------------------------------------------------------------------------------------------------------
# Option / Result combinators are their defining `match` (std's documented semantics).  The normalised view
# (`Facts(.., desugar=True)`, `ctx.dsn`) rewrites `x.map_err(|e| ..)`, `x.and_then(|v| ..)`, `x.map_or_else(f, g)` …
# into a switch on the receiver's discriminant with the closure body spliced in, so that a rule written over
# the `match` form of a piece of code sees the combinator form as the same program.
OPT, RES = "std::option::Option", "std::result::Result"
_A = lambda adt, variant, x=None: ("agg", adt, variant, x)
_COMBINATORS = {
    # callee: (receiver adt, {variant index: action})   actions: ("same",) ("payload",) ("arg", i) ("call", i, with_payload)
    #                                                    ("bool", b) ("agg", adt, variant, inner action or None)
    "std::option::Option::<T>::map": (OPT, {0: _A(OPT, "None"), 1: _A(OPT, "Some", ("call", 1, True))}),
    "std::option::Option::<T>::and_then": (OPT, {0: _A(OPT, "None"), 1: ("call", 1, True)}),
    "std::option::Option::<T>::map_or": (OPT, {0: ("arg", 1), 1: ("call", 2, True)}),
    "std::option::Option::<T>::map_or_else": (OPT, {0: ("call", 1, False), 1: ("call", 2, True)}),
    "std::option::Option::<T>::unwrap_or_else": (OPT, {0: ("call", 1, False), 1: ("payload",)}),
    "std::option::Option::<T>::ok_or_else": (OPT, {0: _A(RES, "Err", ("call", 1, False)), 1: _A(RES, "Ok", ("payload",))}),
    "std::option::Option::<T>::ok_or": (OPT, {0: _A(RES, "Err", ("arg", 1)), 1: _A(RES, "Ok", ("payload",))}),
    "std::option::Option::<T>::or_else": (OPT, {0: ("call", 1, False), 1: ("same",)}),
    "std::option::Option::<T>::is_some_and": (OPT, {0: ("bool", False), 1: ("call", 1, True)}),
    "std::option::Option::<T>::is_none_or": (OPT, {0: ("bool", True), 1: ("call", 1, True)}),
    "std::result::Result::<T, E>::map": (RES, {0: _A(RES, "Ok", ("call", 1, True)), 1: _A(RES, "Err", ("payload",))}),
    "std::result::Result::<T, E>::map_err": (RES, {0: _A(RES, "Ok", ("payload",)), 1: _A(RES, "Err", ("call", 1, True))}),
    "std::result::Result::<T, E>::and_then": (RES, {0: ("call", 1, True), 1: _A(RES, "Err", ("payload",))}),
    "std::result::Result::<T, E>::or_else": (RES, {0: _A(RES, "Ok", ("payload",)), 1: ("call", 1, True)}),
    "std::result::Result::<T, E>::map_or": (RES, {0: ("call", 2, True), 1: ("arg", 1)}),
    "std::result::Result::<T, E>::map_or_else": (RES, {0: ("call", 2, True), 1: ("call", 1, True)}),
    "std::result::Result::<T, E>::unwrap_or_else": (RES, {0: ("payload",), 1: ("call", 1, True)}),
    "std::result::Result::<T, E>::is_ok_and": (RES, {0: ("call", 1, True), 1: ("bool", False)}),
    "std::result::Result::<T, E>::is_err_and": (RES, {0: ("bool", False), 1: ("call", 1, True)}),
    "std::result::Result::<T, E>::ok": (RES, {0: _A(OPT, "Some", ("payload",)), 1: _A(OPT, "None")}),
    "std::result::Result::<T, E>::err": (RES, {0: _A(OPT, "None"), 1: _A(OPT, "Some", ("payload",))}),
}
_VARIANTS = {OPT: ["None", "Some"], RES: ["Ok", "Err"]}


def _inline_local_closure_calls(d, record, max_blocks=1500):
    """`let helper = |a, b| ..; helper(x, y)`: a closure bound to a local and called directly is a local function.  Its body is
    inlined at every direct call site (`Fn::call(&helper, (x, y))` resolved to the closure), the environment reference and the
    elements of the argument tuple bound to its parameters, exactly as a helper `fn` is inlined; the closures defined inside
    it become children of the caller.  The closure stays a function of the program when it is also used as a value.
    (Part of the normalised view only; today's tree has no such call.)"""
    by_id = {}
    done = set()
    for f in d["functions"]:
        by_id.setdefault(f["id"], []).append(f)
    for raw in d["functions"]:
        home = set([raw["id"]] + list(raw.get("inlined", [])))
        i = 0
        while i < len(raw["blocks"]) and len(raw["blocks"]) < max_blocks:
            blk = raw["blocks"][i]
            i += 1
            t = blk["term"]
            if t["t"] != "call" or blk.get("cleanup") or not re.search(r"ops::(Fn::call|FnMut::call_mut|FnOnce::call_once)$", t.get("callee") or ""):
                continue
            gs = by_id.get(t.get("resolved") or "", [])
            if len(gs) != 1:
                continue
            graw = gs[0]
            if graw is raw or graw["kind"] != "Closure" or graw.get("coroutine") or graw.get("parent") not in home or len(t["args"]) != 2:
                continue
            a1 = t["args"][1]
            tl = a1["pl"]["l"] if a1.get("k") in ("move", "copy") and not a1["pl"]["p"] else None
            tup = [st for st in blk["st"] if st["s"] == "assign" and st["pl"] == {"l": tl, "p": []} and st["rv"]["rv"] == "agg" and st["rv"].get("agg") == "tuple"]
            if tl is None or len(tup) != 1 or len(tup[0]["rv"]["ops"]) != graw["argc"] - 1:
                continue
            loff, boff = len(raw["locals"]), len(raw["blocks"])
            line = t.get("line", 0)
            blk["st"].append({"s": "assign", "pl": {"l": loff + 1, "p": []}, "rv": {"rv": "use", "op": t["args"][0]}, "line": line, "inl": graw["id"]})
            for k, a in enumerate(tup[0]["rv"]["ops"]):
                blk["st"].append({"s": "assign", "pl": {"l": loff + 2 + k, "p": []}, "rv": {"rv": "use", "op": a}, "line": line, "inl": graw["id"]})
            ret_to, dest = t.get("to"), t["dest"]
            blk["term"] = {"t": "goto", "to": boff, "line": line, "exp": t.get("exp", False), "inl_call": graw["id"]}
            raw["locals"] = raw["locals"] + list(graw["locals"])
            for nm in graw["names"]:
                raw["names"].append({"name": nm["name"], "pl": _remap(nm["pl"], loff, boff)})
            direct = not dest["p"]
            for gb in graw["blocks"]:
                nb = _remap(gb, loff, boff)
                if nb["term"]["t"] == "return":
                    if not direct:
                        nb["st"].append({"s": "assign", "pl": dest, "rv": {"rv": "use", "op": {"k": "move", "pl": {"l": loff, "p": []}}}, "line": line, "inl": graw["id"]})
                    nb["term"] = ({"t": "goto", "to": ret_to, "line": line, "exp": False} if ret_to is not None else {"t": "unreachable", "line": line, "exp": False})
                if direct:
                    _rename_local(nb, loff, dest["l"])
                raw["blocks"].append(nb)
            if direct and ret_to is not None:
                raw.setdefault("joins", []).append([dest["l"], ret_to])
            raw.setdefault("inlined", [])
            for x in [graw["id"]] + list(graw.get("inlined", [])):
                if x not in raw["inlined"]:
                    raw["inlined"].append(x)
            home.add(graw["id"])
            record.setdefault(raw["id"], []).append(graw["id"])
            done.add(graw["id"])
    # a local closure whose every use was a direct call is no longer a function of the program (its aggregate statement
    # stays in the caller as a dead value); one that is also passed somewhere as a value, or still called, stays
    if done:
        used = set()

        def walk(o):
            if isinstance(o, dict):
                if o.get("t") == "call":
                    if o.get("resolved") in done:
                        used.add(o["resolved"])
                    for a in o.get("args", []):
                        c = a.get("closure") if isinstance(a, dict) else None
                        if c in done:
                            used.add(c)
                for v in o.values():
                    walk(v)
            elif isinstance(o, list):
                for x in o:
                    walk(x)
        for f in d["functions"]:
            if f["id"] in done:
                continue
            # which locals hold one of the closures, and are they an argument of a call
            holders = {}
            for b in f["blocks"]:
                for st in b["st"]:
                    if st["s"] == "assign" and st["rv"].get("rv") == "agg" and st["rv"].get("agg") == "closure" and st["rv"].get("def") in done and not st["pl"]["p"]:
                        holders[st["pl"]["l"]] = st["rv"]["def"]
            if holders:
                # follow whole-local copies / references
                for _ in range(4):
                    for b in f["blocks"]:
                        for st in b["st"]:
                            if st["s"] != "assign" or st["pl"]["p"]:
                                continue
                            rv = st["rv"]
                            src = rv["op"]["pl"]["l"] if rv.get("rv") == "use" and rv["op"].get("k") in ("move", "copy") and not rv["op"]["pl"]["p"] else \
                                rv["pl"]["l"] if rv.get("rv") == "ref" and not rv["pl"]["p"] else None
                            if src in holders:
                                holders.setdefault(st["pl"]["l"], holders[src])
                for b in f["blocks"]:
                    t = b["term"]
                    if t and t["t"] == "call":
                        for a in t["args"]:
                            if a.get("k") in ("move", "copy") and a["pl"]["l"] in holders:
                                used.add(holders[a["pl"]["l"]])
                    # stored into an aggregate (a struct field, a tuple, another closure's environment): still a value
                    for st in b["st"]:
                        if st["s"] == "assign" and st["rv"].get("rv") == "agg":
                            for o in st["rv"]["ops"]:
                                if o.get("k") in ("move", "copy") and o["pl"]["l"] in holders and not (st["rv"].get("agg") == "closure" and st["rv"].get("def") in done):
                                    used.add(holders[o["pl"]["l"]])
            walk(f["blocks"])
        gone = done - used
        if gone:
            d["functions"] = [f for f in d["functions"] if f["id"] not in gone]


def _desugar_bool_then_some(d):
    """`cond.then_some(v)` is `if cond { Some(v) } else { None }` (the argument is evaluated either way, as in the source): the
    call becomes a switch on the bool with the two Option aggregates in its arms, joined at the call's continuation, so that
    `(len <= MAX).then_some(token).ok_or_else(err)` and `if len > MAX { return Err(err()) } Ok(token)` are one program in the
    normalised view."""
    for f in d["functions"]:
        i = 0
        while i < len(f["blocks"]) and len(f["blocks"]) < 4000:
            blk = f["blocks"][i]
            i += 1
            t = blk["term"]
            if t["t"] != "call" or blk.get("cleanup") or not re.search(r"^(core|std)::bool::<impl bool>::then_some$", t.get("callee") or "") or t.get("to") is None \
                    or len(t["args"]) != 2 or t["dest"]["p"]:
                continue
            line = t.get("line", 0)
            cond, val, dest, ret_to = t["args"][0], t["args"][1], t["dest"], t["to"]

            def nb():
                b = {"bb": len(f["blocks"]), "cleanup": False, "st": [], "term": None, "dsg": t["callee"]}
                f["blocks"].append(b)
                return b
            yes, no = nb(), nb()
            yes["st"].append({"s": "assign", "pl": dest, "rv": {"rv": "agg", "agg": "adt", "adt": OPT, "variant": "Some", "fields": ["0"], "ops": [val]}, "line": line, "dsg": t["callee"]})
            yes["term"] = {"t": "goto", "to": ret_to, "line": line, "exp": False}
            no["st"].append({"s": "assign", "pl": dest, "rv": {"rv": "agg", "agg": "adt", "adt": OPT, "variant": "None", "fields": [], "ops": []}, "line": line, "dsg": t["callee"]})
            no["term"] = {"t": "goto", "to": ret_to, "line": line, "exp": False}
            blk["term"] = {"t": "switch", "discr": cond, "targets": [[0, no["bb"]]], "otherwise": yes["bb"], "line": line, "exp": t.get("exp", False), "dsg": t["callee"]}
            f.setdefault("joins", []).append([dest["l"], ret_to])


def _desugar_combinators(d, record, max_passes=6):
    by_id = {}
    for f in d["functions"]:
        by_id.setdefault(f["id"], []).append(f)
    adts = {a["id"]: a for a in d["adts"]}

    def ctor_of(path):
        """(adt, variant) when the fn item is a tuple-variant / tuple-struct constructor."""
        if not path:
            return None
        m = re.match(r"std::(?:prelude::v1|option::Option|result::Result)::(Some|Ok|Err)$", path)
        if m:
            return (OPT if m.group(1) == "Some" else RES, m.group(1))
        if "::" in path:
            a, v = path.rsplit("::", 1)
            if a in adts and adts[a]["kind"] == "enum" and any(x["name"] == v for x in adts[a]["variants"]):
                return (a, v)
        if path in adts and adts[path]["kind"] == "struct":
            return (path, None)
        return None

    def operand_uses(f, l):
        n = 0

        def walk(o):
            nonlocal n
            if isinstance(o, dict):
                if o.get("k") in ("copy", "move") and o.get("pl", {}).get("l") == l:
                    n += 1
                for k, v in o.items():
                    if k != "pl" or "k" not in o:
                        walk(v)
                if "rv" in o and o.get("rv") in ("ref", "copyderef", "discr", "rawptr") and o.get("pl", {}).get("l") == l:
                    n += 1
            elif isinstance(o, list):
                for x in o:
                    walk(x)
        for b in f["blocks"]:
            if b.get("cleanup"):
                continue
            for st in b["st"]:
                if st["s"] == "assign":
                    walk(st["rv"])
            t = b["term"]
            walk({k: v for k, v in t.items() if k in ("args", "discr", "callee_op", "val")})
        return n

    def closure_def(f, op):
        """The closure body passed as `op`, when `op` is a local assigned one closure aggregate and used only here."""
        if op.get("k") not in ("move", "copy") or op["pl"]["p"]:
            return None
        l = op["pl"]["l"]
        defs = [st for b in f["blocks"] if not b.get("cleanup") for st in b["st"] if st["s"] == "assign" and st["pl"]["l"] == l]
        if len(defs) != 1 or defs[0]["pl"]["p"] or defs[0]["rv"]["rv"] != "agg" or defs[0]["rv"].get("agg") != "closure":
            return None
        gs = by_id.get(defs[0]["rv"]["def"], [])
        if len(gs) != 1 or gs[0].get("coroutine") or gs[0] is f or operand_uses(f, l) != 1:
            return None
        return gs[0]

    def desugar_fn(f):
        changed = False
        i = 0
        while i < len(f["blocks"]) and len(f["blocks"]) < 4000:
            blk = f["blocks"][i]
            i += 1
            t = blk["term"]
            if t["t"] != "call" or blk.get("cleanup") or t.get("callee") not in _COMBINATORS or t.get("to") is None:
                continue
            radt, acts = _COMBINATORS[t["callee"]]
            recv = t["args"][0]
            if recv.get("k") not in ("move", "copy"):
                continue
            # resolve every callable the actions need before touching anything
            plan = {}
            ok = True

            def need(act):
                nonlocal ok
                if act[0] == "call":
                    a = t["args"][act[1]]
                    if a.get("k") == "const" and a.get("fn"):
                        plan[act[1]] = ("ctor", ctor_of(a["fn"])) if ctor_of(a["fn"]) else ("fn", a["fn"])
                    else:
                        g = closure_def(f, a)
                        if g is None or g["argc"] != (2 if act[2] else 1):
                            ok = False
                        else:
                            plan[act[1]] = ("closure", g)
                elif act[0] == "agg" and act[3]:
                    need(act[3])
            for act in acts.values():
                need(act)
            if not ok:
                continue
            line = t.get("line", 0)
            ret_to, dest = t["to"], t["dest"]
            lt = f["locals"]
            rl = len(lt)
            recv_ty = lt[recv["pl"]["l"]] if not recv["pl"]["p"] else "_"
            f["locals"] = lt + [recv_ty, "isize"]
            dl = rl + 1
            if not recv["pl"]["p"]:
                rl = recv["pl"]["l"]       # the receiver is a whole local: match on it directly
            else:
                blk["st"].append({"s": "assign", "pl": {"l": rl, "p": []}, "rv": {"rv": "use", "op": recv}, "line": line, "dsg": t["callee"]})
            blk["st"].append({"s": "assign", "pl": {"l": dl, "p": []}, "rv": {"rv": "discr", "pl": {"l": rl, "p": []}, "ty": recv_ty}, "line": line, "dsg": t["callee"]})

            def new_block():
                b = {"bb": len(f["blocks"]), "cleanup": False, "st": [], "term": None, "dsg": t["callee"]}
                f["blocks"].append(b)
                return b
            dead = new_block()
            dead["term"] = {"t": "unreachable", "line": line, "exp": False}
            targets = []
            for vi in sorted(acts):
                vname = _VARIANTS[radt][vi]
                arm = new_block()
                targets.append([vi, arm["bb"]])
                payload_pl = {"l": rl, "p": [{"dc": vname, "v": vi}, {"f": 0, "n": "0"}]}

                def emit(act, cur, out_pl):
                    """Append code computing `act` into out_pl starting in block cur; returns the block in which control continues."""
                    if act[0] == "same":
                        cur["st"].append({"s": "assign", "pl": out_pl, "rv": {"rv": "use", "op": {"k": "move", "pl": {"l": rl, "p": []}}}, "line": line, "dsg": t["callee"]})
                        return cur
                    if act[0] == "payload":
                        cur["st"].append({"s": "assign", "pl": out_pl, "rv": {"rv": "use", "op": {"k": "move", "pl": payload_pl}}, "line": line, "dsg": t["callee"]})
                        return cur
                    if act[0] == "arg":
                        cur["st"].append({"s": "assign", "pl": out_pl, "rv": {"rv": "use", "op": t["args"][act[1]]}, "line": line, "dsg": t["callee"]})
                        return cur
                    if act[0] == "bool":
                        cur["st"].append({"s": "assign", "pl": out_pl, "rv": {"rv": "use", "op": {"k": "const", "ty": "bool", "val": {"int": 1 if act[1] else 0}}}, "line": line, "dsg": t["callee"]})
                        return cur
                    if act[0] == "agg":
                        ops = []
                        if act[3]:
                            tl = len(f["locals"])
                            # the temporary holding the payload: typed when the payload is what a closure returns
                            sub = act[3]
                            sty = "_"
                            if sub[0] == "call" and plan.get(sub[1], (None,))[0] == "closure":
                                sty = plan[sub[1]][1]["locals"][0]
                            f["locals"] = f["locals"] + [sty]
                            cur = emit(act[3], cur, {"l": tl, "p": []})
                            ops = [{"k": "move", "pl": {"l": tl, "p": []}}]
                        cur["st"].append({"s": "assign", "pl": out_pl, "rv": {"rv": "agg", "agg": "adt", "adt": act[1], "variant": act[2], "fields": ["0"] if ops else [], "ops": ops},
                                          "line": line, "dsg": t["callee"]})
                        return cur
                    # call of the callable passed as argument act[1]
                    kind, what = plan[act[1]]
                    args = [{"k": "move", "pl": payload_pl}] if act[2] else []
                    if kind == "ctor":
                        adt, variant = what
                        rv = {"rv": "agg", "agg": "adt", "adt": adt, "fields": ["0"], "ops": args}
                        if variant:
                            rv["variant"] = variant
                        cur["st"].append({"s": "assign", "pl": out_pl, "rv": rv, "line": line, "dsg": t["callee"]})
                        return cur
                    if kind == "fn":
                        nxt = new_block()
                        cur["term"] = {"t": "call", "callee": what, "args": args, "dest": out_pl, "to": nxt["bb"], "line": line, "exp": False, "dsg": t["callee"]}
                        return nxt
                    g = what
                    loff, boff = len(f["locals"]), len(f["blocks"])
                    cl = t["args"][act[1]]["pl"]["l"]
                    # the closure value is used by this call only: build it where it is called (keeps the block that
                    # tests the receiver free of unrelated statements, so that it can be threaded)
                    for j, st0 in enumerate(blk["st"]):
                        if st0["s"] == "assign" and st0["pl"] == {"l": cl, "p": []} and st0["rv"]["rv"] == "agg" and st0["rv"].get("agg") == "closure":
                            caps = set(o["pl"]["l"] for o in st0["rv"]["ops"] if o.get("k") in ("move", "copy"))
                            later = blk["st"][j + 1:]
                            if not any(x["s"] == "assign" and x["pl"]["l"] in caps for x in later):
                                # capture temporaries (`_10 = &_2`) defined in this block move along
                                deps = [x for x in blk["st"][:j] if x["s"] == "assign" and x["pl"]["l"] in caps and not x["pl"]["p"] and x["rv"]["rv"] in ("ref", "use")]
                                for x in deps + [st0]:
                                    blk["st"].remove(x)
                                    cur["st"].append(x)
                            break
                    env_ty = g["locals"][1]
                    if env_ty.startswith("&"):
                        cur["st"].append({"s": "assign", "pl": {"l": loff + 1, "p": []}, "rv": {"rv": "ref", "mut": env_ty.startswith("&mut") or "mut " in env_ty[:24], "pl": {"l": cl, "p": []}}, "line": line, "dsg": t["callee"]})
                    else:
                        cur["st"].append({"s": "assign", "pl": {"l": loff + 1, "p": []}, "rv": {"rv": "use", "op": {"k": "move", "pl": {"l": cl, "p": []}}}, "line": line, "dsg": t["callee"]})
                    if act[2]:
                        cur["st"].append({"s": "assign", "pl": {"l": loff + 2, "p": []}, "rv": {"rv": "use", "op": args[0]}, "line": line, "dsg": t["callee"]})
                    cur["term"] = {"t": "goto", "to": boff, "line": line, "exp": False, "inl_call": g["id"]}
                    f["locals"] = f["locals"] + list(g["locals"])
                    for nm in g["names"]:
                        f["names"].append({"name": nm["name"], "pl": _remap(nm["pl"], loff, boff)})
                    after = None
                    nbs = []
                    for gb in g["blocks"]:
                        nb = _remap(gb, loff, boff)
                        nbs.append(nb)
                        f["blocks"].append(nb)
                    after = new_block()
                    direct = not out_pl["p"]
                    for nb in nbs:
                        if nb["term"]["t"] == "return":
                            if not direct:
                                nb["st"].append({"s": "assign", "pl": out_pl, "rv": {"rv": "use", "op": {"k": "move", "pl": {"l": loff, "p": []}}}, "line": nb["term"].get("line", 0), "dsg": t["callee"]})
                            nb["term"] = {"t": "goto", "to": after["bb"], "line": nb["term"].get("line", 0), "exp": False}
                        if direct:
                            _rename_local(nb, loff, out_pl["l"])
                    f.setdefault("inlined", []).append(g["id"])
                    for x in g.get("inlined", []):
                        if x not in f["inlined"]:
                            f["inlined"].append(x)
                    for jr, jb in g.get("joins", []):
                        f.setdefault("joins", []).append([out_pl["l"] if (direct and jr == 0) else jr + loff, jb + boff])
                    f.setdefault("spliced_closures", []).append(g["id"])
                    record.setdefault(f["id"], []).append(g["id"])
                    spliced.add(g["id"])
                    return after
                end = emit(acts[vi], arm, dest)
                end["term"] = {"t": "goto", "to": ret_to, "line": line, "exp": False}
            blk["term"] = {"t": "switch", "discr": {"k": "move", "pl": {"l": dl, "p": []}}, "targets": targets, "otherwise": dead["bb"], "line": line, "exp": t.get("exp", False), "dsg": t["callee"]}
            if not dest["p"]:
                f.setdefault("joins", []).append([dest["l"], ret_to])
            changed = True
        return changed
    spliced = set()
    depth = lambda f: f["id"].count("{closure#")
    for _ in range(max_passes):
        any_change = False
        for f in sorted(d["functions"], key=lambda f: -depth(f)):
            if f["id"] in spliced:
                continue
            if desugar_fn(f):
                any_change = True
        if not any_change:
            break
    # a closure whose only call was spliced is no longer a separate body
    d["functions"] = [f for f in d["functions"] if not (f["id"] in spliced and f["kind"] == "Closure")]



_CF = "std::ops::ControlFlow"


def _thread_known_variants(f):
    """Jump threading at the joins created by inlining a helper / splicing a combinator closure.  A helper that ends in
    `return Err(e)` / `Ok(v)` and whose caller immediately writes `helper()?` or `match helper() {..}` joins all its
    exits in one block and splits them again right away; dominance facts (`the handler is only selected on the Ok
    edge of the path check`) are lost at that join although every exit has a statically known variant.  For every
    exit whose last write of the result local R is `R = Ok(..)/Err(..)/Some(..)/None` (or `from_residual`), the edge
    to the join is redirected straight to the matching arm, as if the helper's code stood in the caller."""
    joins = f.get("joins") or []
    if not joins:
        return False
    blocks = f["blocks"]
    changed = False

    def known_variant(node, kind):
        if kind == "assign":
            rv = node["rv"]
            if rv["rv"] == "agg" and rv.get("agg") == "adt" and rv.get("adt") in (OPT, RES) and rv.get("variant"):
                return rv["adt"], rv["variant"]
            return None
        callee = node.get("callee") or ""
        if callee.endswith("FromResidual::from_residual"):
            res = node.get("resolved") or ""
            if res.startswith("<std::result::Result<"):
                return RES, "Err"
            if res.startswith("<std::option::Option<"):
                return OPT, "None"
        return None

    def classify(R, J):
        """How the join block consumes R: ("try", b_local, cont_bb, brk_bb) | ("match", ref_stmts, {variant: bb}) | None"""
        jb = blocks[J]
        # skip over trivial forwarding blocks
        hops = 0
        while not jb["st"] and jb["term"]["t"] in ("goto", "falseedge", "drop") and jb["term"].get("to") is not None and hops < 6:
            J = jb["term"]["to"]
            jb = blocks[J]
            hops += 1
        t = jb["term"]
        uses_R = lambda op: op.get("k") in ("move", "copy") and op["pl"]["l"] == R and not op["pl"]["p"]
        if t["t"] == "call" and (t.get("callee") or "").endswith("ops::Try::branch") and t.get("to") is not None and len(t["args"]) == 1 and uses_R(t["args"][0]) \
                and not jb["st"] and not t["dest"]["p"]:
            j2 = blocks[t["to"]]
            b = t["dest"]["l"]
            if j2["term"]["t"] == "switch" and len(j2["st"]) == 1 and j2["st"][0]["s"] == "assign" and j2["st"][0]["rv"]["rv"] == "discr" \
                    and j2["st"][0]["rv"]["pl"] == {"l": b, "p": []} and j2["term"]["discr"].get("pl") == j2["st"][0]["pl"]:
                tg = dict((v, bb) for v, bb in j2["term"]["targets"])
                if 0 in tg and 1 in tg:
                    return J, ("try", b, tg[0], tg[1])
            return J, None
        if t["t"] == "switch" and jb["st"]:
            last = jb["st"][-1]
            refs = jb["st"][:-1]
            ref_locals = set()
            for st in refs:
                if not (st["s"] == "assign" and st["rv"]["rv"] == "ref" and st["rv"]["pl"] == {"l": R, "p": []} and not st["pl"]["p"]):
                    return J, None
                ref_locals.add(st["pl"]["l"])
            if last["s"] == "assign" and last["rv"]["rv"] == "discr" and t["discr"].get("pl") == last["pl"]:
                pl = last["rv"]["pl"]
                direct = pl == {"l": R, "p": []}
                via_ref = pl["l"] in ref_locals and pl["p"] == ["*"]
                if direct or via_ref:
                    return J, ("match", refs, dict((v, bb) for v, bb in t["targets"]), t.get("otherwise"))
        return J, None

    for R, J0 in joins:
        J, form = classify(R, J0)
        if not form:
            continue
        # exits: blocks whose last write to R is a whole-local write of known variant and that lead to J through trivial blocks only
        for P in range(len(blocks)):
            pb = blocks[P]
            if pb.get("cleanup"):
                continue
            kv = None
            t = pb["term"]
            if t["t"] == "call" and t["dest"] == {"l": R, "p": []} and t.get("to") is not None:
                kv = known_variant(t, "call")
                nxt = t["to"]
            else:
                for st in pb["st"]:
                    if st["s"] == "assign" and st["pl"]["l"] == R:
                        kv = known_variant(st, "assign") if not st["pl"]["p"] else None
                if t["t"] not in ("goto", "drop", "falseedge") or t.get("to") is None:
                    kv = None
                nxt = t.get("to")
            if kv is None:
                continue
            chain = []
            cur = nxt
            okc = True
            while cur != J:
                cb = blocks[cur]
                if cb["st"] or cb["term"]["t"] not in ("goto", "drop", "falseedge") or cb.get("cleanup") or len(chain) > 12:
                    okc = False
                    break
                chain.append(cur)
                cur = cb["term"]["to"]
            if not okc:
                continue
            adt, variant = kv
            succ = variant in ("Ok", "Some")
            line = pb["term"].get("line", 0)
            T = {"bb": None, "cleanup": False, "st": [], "term": None, "thr": True}
            if form[0] == "try":
                _, b, cont, brk = form
                if succ:
                    T["st"].append({"s": "assign", "pl": {"l": b, "p": []}, "rv": {"rv": "agg", "agg": "adt", "adt": _CF, "variant": "Continue", "fields": ["0"],
                                    "ops": [{"k": "move", "pl": {"l": R, "p": [{"dc": variant, "v": 0 if adt == RES else 1}, {"f": 0, "n": "0"}]}}]}, "line": line, "thr": True})
                    target = cont
                else:
                    tl = len(f["locals"])
                    f["locals"] = f["locals"] + ["_"]
                    ops = [{"k": "move", "pl": {"l": R, "p": [{"dc": "Err", "v": 1}, {"f": 0, "n": "0"}]}}] if adt == RES else []
                    T["st"].append({"s": "assign", "pl": {"l": tl, "p": []}, "rv": {"rv": "agg", "agg": "adt", "adt": adt, "variant": variant, "fields": ["0"] if ops else [], "ops": ops}, "line": line, "thr": True})
                    T["st"].append({"s": "assign", "pl": {"l": b, "p": []}, "rv": {"rv": "agg", "agg": "adt", "adt": _CF, "variant": "Break", "fields": ["0"],
                                    "ops": [{"k": "move", "pl": {"l": tl, "p": []}}]}, "line": line, "thr": True})
                    target = brk
            else:
                _, refs, tg, otherwise = form
                vi = _VARIANTS[adt].index(variant)
                target = tg.get(vi, otherwise)
                if target is None:
                    continue
                T["st"] = [dict(json.loads(json.dumps(st)), thr=True) for st in refs]
            # clone the trivial chain for this exit, then T
            first = None
            prev = None
            for c in chain:
                nb = json.loads(json.dumps(blocks[c]))
                nb["bb"] = len(blocks)
                nb["thr"] = True
                blocks.append(nb)
                if prev is not None:
                    prev["term"]["to"] = nb["bb"]
                else:
                    first = nb["bb"]
                prev = nb
            T["bb"] = len(blocks)
            T["term"] = {"t": "goto", "to": target, "line": line, "exp": False, "thr": True}
            blocks.append(T)
            if prev is not None:
                prev["term"]["to"] = T["bb"]
            else:
                first = T["bb"]
            pb["term"]["to"] = first
            changed = True
    if changed:
        # blocks no path reaches any more (a join all of whose exits were threaded) are emptied, so that their
        # statements do not count as definitions
        succs = lambda b: [x for x in ([b["term"].get("to"), b["term"].get("otherwise"), b["term"].get("imag"), b["term"].get("drop")] + [tb for _, tb in b["term"].get("targets", [])])
                           if isinstance(x, int) and 0 <= x < len(blocks)]
        seen = set()
        st = [0]
        while st:
            x = st.pop()
            if x in seen:
                continue
            seen.add(x)
            st.extend(succs(blocks[x]))
        for b in blocks:
            if b["bb"] not in seen and not b.get("cleanup") and b["term"]["t"] != "unreachable":
                b["st"] = []
                b["term"] = {"t": "unreachable", "line": b["term"].get("line", 0), "exp": True, "thr": True}
    return changed



_GPARAM = re.compile(r"[A-Za-z_][A-Za-z0-9_]*/#(\d+)")


def _subst_generics(o, gargs):
    """Deep copy of a MIR fragment of a generic helper with its type parameters (`Name/#i`) replaced by the generic
    arguments of the call being inlined, so that the types named inside the inlined code are the caller's."""
    def sub(txt):
        return _GPARAM.sub(lambda m: gargs[int(m.group(1))] if int(m.group(1)) < len(gargs) else m.group(0), txt)
    if isinstance(o, str):
        return sub(o) if "/#" in o else o
    if isinstance(o, list):
        return [_subst_generics(x, gargs) for x in o]
    if isinstance(o, dict):
        return {k: _subst_generics(v, gargs) for k, v in o.items()}
    return o


def _rename_local(o, a, b):
    """In place: every occurrence of local a (as a place root or an index) becomes local b."""
    if isinstance(o, list):
        for x in o:
            _rename_local(x, a, b)
    elif isinstance(o, dict):
        if "l" in o and "p" in o and len(o) == 2:
            if o["l"] == a:
                o["l"] = b
            for e in o["p"]:
                if isinstance(e, dict) and e.get("idx") == a:
                    e["idx"] = b
        else:
            for v in o.values():
                _rename_local(v, a, b)


def _inline_unknown_helpers(d, record, max_blocks=400, max_depth=4):
    """Inline the MIR of crate-local helper functions that are not on tables/known_functions.txt into
    their callers, so that `extract a block into a private helper` does not hide code from the rules.
    Only plain functions (no coroutines), non-recursive, of bounded size; closures defined inside a
    helper stay separate bodies and are re-parented through raw["inlined"]."""
    known = known_functions()
    if known is None:
        return
    crate = d["crate"]
    by_id = {}
    for f in d["functions"]:
        by_id.setdefault(f["id"], []).append(f)
    cand = {}
    for f in d["functions"]:
        if f["kind"] not in ("Fn", "AssocFn") or (crate, f["id"]) in known:
            continue
        if len(by_id[f["id"]]) != 1 or f.get("coroutine") or len(f["blocks"]) > max_blocks:
            continue
        if f["id"].startswith("<") and " as " in f["id"].split(">::")[0]:
            continue  # trait impl methods are reached through dispatch, keep them as functions
        if any(st["s"] == "assign" and st["rv"]["rv"] == "agg" and st["rv"].get("agg") in ("coroutine", "coroutine_closure") for b in f["blocks"] for st in b["st"]):
            continue  # async fn wrapper: its body is a coroutine, not inlinable here
        cand[f["id"]] = f

    def callee_of(t):
        if t["t"] != "call":
            return None
        for k in ("resolved", "callee"):
            c = t.get(k)
            if c in cand:
                return c
        return None
    # recursion check: drop candidates on a cycle among candidates
    edges = {cid: set(callee_of(b["term"]) for b in f["blocks"]) - {None} for cid, f in cand.items()}

    def reaches(a, b, seen):
        if a in seen:
            return False
        seen.add(a)
        return b in edges.get(a, ()) or any(reaches(x, b, seen) for x in edges.get(a, ()))
    for cid in list(cand):
        if reaches(cid, cid, set()):
            del cand[cid]

    def inline_into(f, depth):
        changed = False
        i = 0
        while i < len(f["blocks"]):
            blk = f["blocks"][i]
            t = blk["term"]
            cid = callee_of(t)
            if cid is None or blk.get("cleanup") or depth <= 0 or len(f["blocks"]) > 1500:
                i += 1
                continue
            g = cand[cid]
            if g is f:
                i += 1
                continue
            loff, boff = len(f["locals"]), len(f["blocks"])
            if t.get("gargs") and g.get("generic", "/#" in json.dumps(g["blocks"]) or any("/#" in x for x in g["locals"])):
                g = dict(g, locals=_subst_generics(g["locals"], t["gargs"]), blocks=_subst_generics(g["blocks"], t["gargs"]))
            # parameters
            for k, a in enumerate(t["args"]):
                blk["st"].append({"s": "assign", "pl": {"l": loff + k + 1, "p": []}, "rv": {"rv": "use", "op": a}, "line": t.get("line", 0), "inl": cid})
            ret_to = t.get("to")
            dest = t["dest"]
            blk["term"] = {"t": "goto", "to": boff, "line": t.get("line", 0), "exp": t.get("exp", False), "inl_call": cid}
            f["locals"] = f["locals"] + list(g["locals"])
            for nm in g["names"]:
                f["names"].append({"name": nm["name"], "pl": _remap(nm["pl"], loff, boff)})
            # the helper's return place *is* the call's destination (when that is a whole local): `_0 = Ok(..)` inside a
            # helper whose call is the caller's tail expression reads `_0 = Ok(..)` in the caller, as if written there
            direct = not dest["p"]
            for gb in g["blocks"]:
                nb = _remap(gb, loff, boff)
                if nb["term"]["t"] == "return":
                    if not direct:
                        nb["st"].append({"s": "assign", "pl": dest, "rv": {"rv": "use", "op": {"k": "move", "pl": {"l": loff, "p": []}}}, "line": nb["term"].get("line", 0), "inl": cid})
                    nb["term"] = ({"t": "goto", "to": ret_to, "line": nb["term"].get("line", 0), "exp": False} if ret_to is not None
                                  else {"t": "unreachable", "line": nb["term"].get("line", 0), "exp": False})
                if direct:
                    _rename_local(nb, loff, dest["l"])
                f["blocks"].append(nb)
            if direct and ret_to is not None:
                f.setdefault("joins", []).append([dest["l"], ret_to])
            # joins recorded inside the helper (it had helpers / combinators of its own) move along
            for jr, jb in g.get("joins", []):
                f.setdefault("joins", []).append([dest["l"] if (direct and jr == 0) else jr + loff, jb + boff])
            f.setdefault("inlined", []).append(cid)
            for x in g.get("inlined", []):
                if x not in f["inlined"]:
                    f["inlined"].append(x)
            record.setdefault(f["id"], []).append(cid)
            changed = True
            i += 1
        return changed
    # helpers first (so that a helper calling a helper is flattened), then everybody else
    order = sorted(cand, key=lambda c: len(edges[c]))
    for _ in range(max_depth):
        if not any(inline_into(cand[c], 1) for c in order):
            break
    for f in d["functions"]:
        if f["id"] in cand:
            continue
        for _ in range(max_depth):
            if not inline_into(f, 1):
                break
    # `helper(args).await` with an unknown `async fn helper`: the wrapper function only builds the coroutine, and the
    # caller polls it in the await loop.  Inline the wrapper like any helper (done above, it is a plain function) and
    # then splice the coroutine body in place of the `Future::poll` call that is resolved to it: awaiting an async
    # block is the same as running its statements here.  The body's own yields stay yields of the caller.
    async_wrappers = {}
    for f in d["functions"]:
        if f["kind"] in ("Fn", "AssocFn") and (crate, f["id"]) not in known and len(by_id.get(f["id"], [])) == 1:
            aggs = [st["rv"]["def"] for b in f["blocks"] for st in b["st"] if st["s"] == "assign" and st["rv"]["rv"] == "agg" and st["rv"].get("agg") == "coroutine"]
            ncalls = sum(1 for b in f["blocks"] if b["term"]["t"] == "call" and not b.get("cleanup"))
            if len(aggs) == 1 and ncalls == 0 and aggs[0] in by_id and len(by_id[aggs[0]]) == 1:
                async_wrappers[f["id"]] = by_id[aggs[0]][0]
    if async_wrappers:
        # 1. the wrappers are plain functions: inline them (their MIR just moves the arguments into the coroutine value)
        for wid in async_wrappers:
            for f in d["functions"]:
                if f["id"] == wid:
                    cand[wid] = f
        for f in d["functions"]:
            if f["id"] not in async_wrappers:
                for _ in range(2):
                    if not inline_into(f, 1):
                        break
        bodies = {c["id"]: (wid, c) for wid, c in async_wrappers.items()}
        for f in list(d["functions"]):
            if f["id"] in bodies or not f.get("coroutine"):
                continue
            i = 0
            while i < len(f["blocks"]) and len(f["blocks"]) < 3000:
                blk = f["blocks"][i]
                t = blk["term"]
                i += 1
                if t["t"] != "call" or blk.get("cleanup") or t.get("resolved") not in bodies or not (t.get("callee") or "").endswith("Future::poll"):
                    continue
                wid, c = bodies[t["resolved"]]
                # the coroutine value: the local of the caller that was assigned the wrapper's aggregate
                src = None
                for b2 in f["blocks"]:
                    for st in b2["st"]:
                        if st["s"] == "assign" and st["rv"]["rv"] == "agg" and st["rv"].get("def") == c["id"] and not st["pl"]["p"]:
                            src = st["pl"]["l"]
                if src is None:
                    continue
                loff, boff = len(f["locals"]), len(f["blocks"])
                blk["st"].append({"s": "assign", "pl": {"l": loff + 1, "p": []}, "rv": {"rv": "use", "op": {"k": "copy", "pl": {"l": src, "p": []}}}, "line": t.get("line", 0), "inl": c["id"]})
                blk["st"].append({"s": "assign", "pl": {"l": loff + 2, "p": []}, "rv": {"rv": "use", "op": {"k": "copy", "pl": {"l": 2, "p": []}}}, "line": t.get("line", 0), "inl": c["id"]})
                ret_to, dest = t.get("to"), t["dest"]
                blk["term"] = {"t": "goto", "to": boff, "line": t.get("line", 0), "exp": True, "inl_call": c["id"]}
                f["locals"] = f["locals"] + list(c["locals"])
                for nm in c["names"]:
                    f["names"].append({"name": nm["name"], "pl": _remap(nm["pl"], loff, boff)})
                for cb in c["blocks"]:
                    nb = _remap(cb, loff, boff)
                    if nb["term"]["t"] == "return":
                        nb["st"].append({"s": "assign", "pl": dest, "rv": {"rv": "agg", "agg": "adt", "adt": "std::task::Poll", "variant": "Ready", "fields": ["0"],
                                                                              "ops": [{"k": "move", "pl": {"l": loff, "p": []}}]}, "line": nb["term"].get("line", 0), "inl": c["id"]})
                        nb["term"] = ({"t": "goto", "to": ret_to, "line": 0, "exp": True} if ret_to is not None else {"t": "unreachable", "line": 0, "exp": True})
                    elif nb["term"]["t"] == "codrop":
                        nb["term"] = {"t": "unreachable", "line": 0, "exp": True}
                    f["blocks"].append(nb)
                f.setdefault("inlined", []).extend([wid, c["id"]])
                record.setdefault(f["id"], []).append(c["id"])
                record.setdefault("__async__", []).append(c["id"])
    # an unknown helper passed as a function value (`.map(helper)`) is equivalent to the closure `|x| helper(x)`:
    # synthesise that closure body (the helper's MIR with its parameters shifted past an empty environment)
    # so that rules written for closures see the same shape
    def shift_params(o):
        if isinstance(o, list):
            return [shift_params(x) for x in o]
        if not isinstance(o, dict):
            return o
        if "l" in o and "p" in o and len(o) == 2:
            sh = lambda l: l + 1 if l >= 1 else l
            return {"l": sh(o["l"]), "p": [({**e, "idx": sh(e["idx"])} if isinstance(e, dict) and "idx" in e else e) for e in o["p"]]}
        return {k: shift_params(v) for k, v in o.items()}
    nsyn = 0
    for f in list(d["functions"]):
        if f["id"] in cand:
            continue
        for blk in f["blocks"]:
            t = blk["term"]
            if t["t"] != "call" or blk.get("cleanup"):
                continue
            for ai, a in enumerate(t["args"]):
                if a.get("k") == "const" and a.get("fn") in cand and cand[a["fn"]].get("argc", 0) >= 1:
                    g = cand[a["fn"]]
                    sid = "%s::{closure#fnitem%d}" % (f["id"], nsyn)
                    nsyn += 1
                    syn = {"id": sid, "kind": "Closure", "span": g["span"], "argc": g["argc"] + 1, "parent": f["id"],
                           "locals": [g["locals"][0], "[closure env]"] + list(g["locals"][1:]),
                           "names": [{"name": nm["name"], "pl": shift_params(nm["pl"])} for nm in g["names"]],
                           "blocks": shift_params(g["blocks"]), "synthetic_of": g["id"], "inlined": list(g.get("inlined", [])) + [g["id"]]}
                    d["functions"].append(syn)
                    nl = len(f["locals"])
                    f["locals"] = f["locals"] + ["[closure " + sid + "]"]
                    blk["st"].append({"s": "assign", "pl": {"l": nl, "p": []}, "rv": {"rv": "agg", "agg": "closure", "def": sid, "ops": []}, "line": t.get("line", 0), "inl": g["id"]})
                    t["args"][ai] = {"k": "move", "pl": {"l": nl, "p": []}}
                    record.setdefault(f["id"], []).append(g["id"])
    # a helper whose every use was inlined is no longer a function of the program: drop it (and keep its
    # closures, which are now reached through the callers' raw["inlined"])
    inlined_ids = set(x for v in record.values() for x in v)
    still_used = set()

    def scan(o, owner):
        if isinstance(o, dict):
            if o.get("t") == "call":
                for k in ("callee", "resolved"):
                    if o.get(k) in inlined_ids and o.get(k) != owner:
                        still_used.add(o[k])
            if o.get("k") == "const" and o.get("fn") in inlined_ids:
                still_used.add(o["fn"])
            for v in o.values():
                scan(v, owner)
        elif isinstance(o, list):
            for v in o:
                scan(v, owner)
    for f in d["functions"]:
        if f["id"] in inlined_ids or not inlined_ids:
            continue
        scan(f["blocks"], f["id"])
    gone = inlined_ids - still_used
    # an inlined coroutine body is still named by its aggregate in the caller; it is gone as a separate function
    # unless something else polls or spawns it
    for cid in set(record.get("__async__", [])):
        polled_elsewhere = any(b["term"].get("resolved") == cid for f in d["functions"] if f["id"] != cid for b in f["blocks"] if b["term"]["t"] == "call")
        if not polled_elsewhere:
            gone.add(cid)
    if gone:
        d["functions"] = [f for f in d["functions"] if f["id"] not in gone]
        record["__removed__"] = sorted(gone)
