"""Helpers of c07.py.

* path_states / variant_table: path-sensitive propagation of *known small values* (bool constants, field-less enum
  variants, discriminants) through copies, tuples and switches, with a record of which variant every watched
  `match` took.  `match x { A => (n, Loc::P), B => (n, Loc::Q) }; match loc { P => .., Q => .. }`, the same thing with
  a bool flag (`(n, false)` / `if in_query`), `A if matches!(y, A) => ..` and a plain nested match are one program for
  it: what is asked is "which constructions / calls are reachable when the watched value is variant V", never through
  which local the answer travels.  (Generic; candidate for engine.py next to bool_states_at.)
* decide_string_tables: decides an enum <-> string-constant pair of functions (`mime_type` / `from_mime_type`) by
  interpreting both with rules/absint.py over every variant and over every string either of them ever compares
  with (plus one string equal to none of them).
"""
import re

from . import absint as A

# ----------------------------------------------------------------------------- path-sensitive small values


def _pkey(pl):
    """(local, field-index path) of a place that is a local or fields of a local; None for anything behind a pointer / downcast."""
    path = []
    for e in pl["p"]:
        if isinstance(e, dict) and "f" in e and "dc" not in e:
            path.append(e["f"])
        elif isinstance(e, dict) and "dc" in e and isinstance(e.get("v"), int):
            path.append(-1 - e["v"])        # `as Variant`: the payload of that variant (variant index v), kept sortable next to field indices
        else:
            return None
    return (pl["l"], tuple(path))


def _is_prefix(a, b):
    return a[0] == b[0] and len(a[1]) <= len(b[1]) and b[1][:len(a[1])] == a[1]


def _mut_borrowed(f):
    memo = f.__dict__.get("_c07_mut_borrowed")
    if memo is None:
        memo = set()
        for b, i, st in f.stmts():
            rv = st["rv"]
            if rv["rv"] == "ref" and rv.get("mut") and "*" not in rv["pl"]["p"]:
                memo.add(rv["pl"]["l"])
            if rv["rv"] == "addr":
                memo.add(rv["pl"]["l"])
        f.__dict__["_c07_mut_borrowed"] = memo
    return memo


def switch_edges(f, sbb):
    """For a switch on an enum discriminant: {successor block: frozenset of variant names that take that edge}."""
    info = f.switch_on(sbb)
    out = {}
    if info.get("kind") != "discr":
        return out
    for v, n in info["variants"].items():
        out.setdefault(f.switch_target(sbb, v), set()).add(n)
    return {b: frozenset(ns) for b, ns in out.items()}


def path_states(f, starts, sites, watch=(), stops=(), max_states=60000):
    """Explore every path from the start states; returns {site block: [(env, facts)]} (state on entry to the block) or
    None when the state budget is exceeded (callers fail closed).

    starts: [(bb, env, facts)].  env: {(local, field path): value}, value = ("b", bool) | ("v", adt, variant name) |
    ("i", adt, variant index) (a discriminant read of a known variant).  facts: {watched switch bb: frozenset of variant
    names the scrutinee can have on the edge taken}.  A switch on a value known in env follows that value only; a
    watched switch on an unknown value forks and records the fact; any other switch forks.  Exploration does not
    continue past a block of `stops` (it may start there)."""
    facts_db = f.facts
    escaped = _mut_borrowed(f)
    watch = set(watch)
    stops = set(stops)
    sites = set(sites)
    edges = {s: switch_edges(f, s) for s in watch}
    out = {s: [] for s in sites}
    seen = set()
    work = [(bb, tuple(sorted(env.items())), tuple(sorted(fc.items())), True) for bb, env, fc in starts]
    n = 0

    def value_of(env, op):
        """{suffix path: value} carried by an operand."""
        if op.get("k") == "const":
            if op.get("ty") == "bool" and op.get("val") and "int" in op["val"]:
                return {(): ("b", bool(op["val"]["int"]))}
            return {}
        if op.get("k") in ("copy", "move"):
            k = _pkey(op["pl"])
            if k is None:
                return {}
            return {q[1][len(k[1]):]: v for q, v in env.items() if _is_prefix(k, q)}
        return {}

    def variant_index(adt, name):
        a = facts_db.adts.get(adt)
        for i, v in enumerate(a["variants"] if a else []):
            if v["name"] == name:
                return i
        return None

    while work:
        bb, env_t, facts_t, first = work.pop()
        key = (bb, env_t, facts_t)
        if key in seen:
            continue
        seen.add(key)
        n += 1
        if n > max_states:
            return None
        env = dict(env_t)
        facts = dict(facts_t)
        if bb in sites:
            out[bb].append((dict(env), dict(facts)))
        if bb in stops and not first:
            continue
        blk = f.blocks[bb]
        for st in blk["st"]:
            if st["s"] != "assign":
                continue
            k = _pkey(st["pl"])
            rv = st["rv"]
            new = {}
            kind = rv["rv"]
            if kind == "use":
                new = value_of(env, rv["op"])
            elif kind == "agg" and rv.get("agg") == "tuple":
                for i, o in enumerate(rv["ops"]):
                    for suf, v in value_of(env, o).items():
                        new[(i,) + suf] = v
            elif kind == "agg" and rv.get("agg") == "adt" and rv.get("variant") is not None:
                a = facts_db.adts.get(rv["adt"])
                if a and a.get("kind") != "struct":
                    new = {(): ("v", rv["adt"], rv["variant"])}
                    # known small values carried as the payload (`Some(Format::Json)`) are read back through `(x as Some).0`
                    vi = variant_index(rv["adt"], rv["variant"])
                    if vi is not None:
                        for i, o in enumerate(rv["ops"]):
                            for suf, v in value_of(env, o).items():
                                new[(-1 - vi, i) + suf] = v
            elif kind == "discr":
                q = _pkey(rv["pl"])
                v = env.get(q) if q is not None else None
                if v is not None and v[0] == "v":
                    idx = variant_index(v[1], v[2])
                    if idx is not None:
                        new = {(): ("i", v[1], idx)}
            elif kind == "unop" and rv["op"] == "Not":
                v = value_of(env, rv["a"]).get(())
                if v is not None and v[0] == "b":
                    new = {(): ("b", not v[1])}
            elif kind == "binop" and rv["op"] in ("Eq", "Ne"):
                a_, b_ = value_of(env, rv["a"]).get(()), value_of(env, rv["b"]).get(())
                if a_ is not None and b_ is not None and a_[0] == b_[0] and a_[0] in ("b", "i"):
                    new = {(): ("b", (a_ == b_) == (rv["op"] == "Eq"))}
            # a moved-from temporary is dead
            for o in ([rv["op"]] if kind == "use" else rv.get("ops", []) if kind == "agg" else []):
                if o.get("k") == "move":
                    mk = _pkey(o["pl"])
                    if mk is not None:
                        for q in [q for q in env if _is_prefix(mk, q)]:
                            del env[q]
            if k is None:
                continue
            for q in [q for q in env if _is_prefix(k, q) or _is_prefix(q, k)]:
                del env[q]
            if k[0] not in escaped:
                for suf, v in new.items():
                    env[(k[0], k[1] + suf)] = v
        t = blk["term"]
        succs = list(f.succ(bb))
        if t["t"] == "call":
            k = _pkey(t["dest"])
            if k is not None:
                for q in [q for q in env if _is_prefix(k, q) or _is_prefix(q, k)]:
                    del env[q]
        elif t["t"] == "switch" and len(succs) > 1:
            d = t["discr"]
            dk = _pkey(d["pl"]) if d.get("k") in ("copy", "move") else None
            v = env.get(dk) if dk is not None else None
            if d.get("k") == "move" and dk is not None:
                env.pop(dk, None)
            if v is not None and v[0] in ("b", "i"):
                tgt = f.switch_target(bb, int(v[1]) if v[0] == "b" else v[2])
                succs = [tgt] if tgt in succs else []
            elif bb in watch and edges.get(bb):
                et = tuple(sorted(env.items()))
                for s in succs:
                    f2 = dict(facts)
                    f2[bb] = edges[bb].get(s, frozenset())
                    work.append((s, et, tuple(sorted(f2.items())), False))
                continue
        et, ft = tuple(sorted(env.items())), tuple(sorted(facts.items()))
        for s in succs:
            work.append((s, et, ft, False))
    return out


def variant_table(f, switch_bbs, target_adt_rx, extra_stops=()):
    """{variant of the scrutinee: set of variants of the target ADT built on some path through that arm}, united over the
    given switches (each is a `match` on the same kind of value).  An arm is explored from its target block until control
    returns to one of the switches (next loop iteration) or leaves the function; values decided inside the arm (a
    location enum, a bool flag) select the later branches.  None if the exploration budget is exceeded."""
    sites = {}
    for b, i, st in f.aggregates(target_adt_rx):
        sites.setdefault(b, set()).add(st["rv"]["variant"])
    table = {}
    stops = set(switch_bbs) | set(extra_stops)
    for sbb in switch_bbs:
        for tgt, names in switch_edges(f, sbb).items():
            if tgt not in f.succ(sbb):
                for n in names:
                    table.setdefault(n, set())
                continue
            # the arm knows which variant the scrutinee has: a re-match of the same place follows it
            info = f.switch_on(sbb)
            env = {}
            k = _pkey(info["place"])
            if k is not None and len(names) == 1 and k[0] not in _mut_borrowed(f):
                env[k] = ("v", info["adt"], sorted(names)[0])
            res = path_states(f, [(tgt, env, {})], sites.keys(), stops=stops)
            if res is None:
                return None
            built = set()
            for b, sts in res.items():
                if sts:
                    built |= sites[b]
            for n in names:
                table.setdefault(n, set()).update(built)
    return table


# ----------------------------------------------------------------------------- function values
def fn_items_reaching(f, op):
    """Function items (constant operands with `fn` / `fn_args`) that the operand's value can be, or — when the operand is a collection /
    iterator — that can be among its elements: the const fn operands of the assignments to the locals of its backward slice (a fn item
    coerced to a fn pointer, stored in an array literal, borrowed, unsized, iterated).  (Generic; candidate for lib.py.)"""
    sl = f.slice(op)
    out = []
    if op.get("k") == "const" and op.get("fn"):
        out.append(op)
    locs = sl.locals()

    def walk(o):
        if isinstance(o, dict):
            if o.get("k") == "const" and o.get("fn"):
                out.append(o)
            for v in o.values():
                walk(v)
        elif isinstance(o, list):
            for v in o:
                walk(v)
    reach = f.reachable(0)
    for b, i, st in f.stmts():
        if b in reach and st["pl"]["l"] in locs and st["rv"]["rv"] in ("use", "cast", "agg", "repeat"):
            walk(st["rv"])
    return out


# ----------------------------------------------------------------------------- enum <-> string tables by interpretation
class _Ranks(dict):
    """Every distinct string is its own rank: only (in)equality is meaningful (checked by the caller on cmp_log)."""

    def __missing__(self, k):
        self[k] = len(self)
        return self[k]


def _s_into_iter(interp, argv, t):
    v = argv[0]
    d = interp.deref_all(v)
    if d is None or d[0] != "tuple" or (len(d) > 2 and d[2] != "array"):
        raise A.LeavesFragment("iteration over something that is not an array literal")
    by_ref = v[0] == "ref"
    items = [A.V_ref(A.Cell(x)) for x in d[1]] if by_ref else list(d[1])
    return ("struct", "#iter", [A.V_tuple(items), A.V_int(0)])


def _iter_next(interp, itref):
    if itref is None or itref[0] != "ref":
        raise A.LeavesFragment("iterator not passed by reference")
    cell, path = itref[1], itref[2]
    it = A.read_path(cell, path)
    if it is None or it[0] != "struct" or it[1] != "#iter":
        raise A.LeavesFragment("not a modelled iterator")
    items, pos = it[2][0][1], it[2][1][1]
    if pos >= len(items):
        return None
    it[2][1] = A.V_int(pos + 1)
    return items[pos]


def _s_next(interp, argv, t):
    x = _iter_next(interp, argv[0])
    return A.V_none() if x is None else A.V_some(x)


def _truth(interp, v):
    v = interp.deref_all(v)
    if v is None or v[0] != "bool":
        raise A.LeavesFragment("closure result is not a concrete bool")
    return v[1]


def _s_find(interp, argv, t):
    while True:
        x = _iter_next(interp, argv[0])
        if x is None:
            return A.V_none()
        if _truth(interp, interp.call_closure(argv[1], A.V_ref(A.Cell(x)))):
            return A.V_some(x)


def _s_find_map(interp, argv, t):
    while True:
        x = _iter_next(interp, argv[0])
        if x is None:
            return A.V_none()
        r = interp.deref_all(interp.call_closure(argv[1], x))
        if r is None or r[0] != "enum" or r[1] != "std::option::Option":
            raise A.LeavesFragment("find_map closure does not return an Option")
        if r[3] == "Some":
            return r


def _s_position(interp, argv, t):
    i = 0
    while True:
        x = _iter_next(interp, argv[0])
        if x is None:
            return A.V_none()
        if _truth(interp, interp.call_closure(argv[1], x)):
            return A.V_some(A.V_int(i))
        i += 1


def _s_copied(interp, argv, t):
    it = interp.deref_all(argv[0])
    if it is None or it[0] != "struct" or it[1] != "#iter":
        raise A.LeavesFragment("not a modelled iterator")
    return ("struct", "#iter", [A.V_tuple([interp.deref_all(x) for x in it[2][0][1]]), it[2][1]])


def _s_clone_enum(interp, argv, t):
    v = interp.deref_all(argv[0])
    if v is not None and (v[0] in ("sym", "opaque", "int", "bool") or (v[0] == "enum" and not v[4])):
        return v
    raise A.LeavesFragment("clone of an aggregate")


ITER_SUMMARIES = {
    "std::iter::IntoIterator::into_iter": _s_into_iter,
    "core::slice::<impl [T]>::iter": _s_into_iter,
    "std::slice::<impl [T]>::iter": _s_into_iter,
    "std::iter::Iterator::next": _s_next,
    "std::iter::Iterator::find": _s_find,
    "std::iter::Iterator::find_map": _s_find_map,
    "std::iter::Iterator::position": _s_position,
    "std::iter::Iterator::copied": _s_copied,
    "std::iter::Iterator::cloned": _s_copied,
    "std::clone::Clone::clone": _s_clone_enum,
}

STRING_OPAQUE = [r"^std::string::ToString::to_string$", r"^std::borrow::ToOwned::to_owned$", r"^std::convert::(From::from|Into::into)$", r"^(core|std|alloc)::fmt::", r"^alloc::fmt::format$",
                 r"^std::string::String::"]


_ARRAY_TY = re.compile(r"^&?(?:'\S+ )?\[(.*?)(?:; [^;\]]+)?\]$")


def _split_top(s):
    """Split a rendered tuple type at its top-level commas."""
    out, depth, cur = [], 0, ""
    for ch in s:
        if ch in "(<[":
            depth += 1
        elif ch in ")>]":
            depth -= 1
        if ch == "," and depth == 0:
            out.append(cur.strip())
            cur = ""
        else:
            cur += ch
    if cur.strip():
        out.append(cur.strip())
    return out


class StrInterp(A.Interp):
    """absint interpreter in which string constants (named constants, literals, constant patterns of a `match` on a
    &str) and the string input are symbols that can only be compared for equality, and an array literal can be iterated."""

    def __init__(self, facts, choices=()):
        A.Interp.__init__(self, facts, _Ranks(), summaries=dict(ITER_SUMMARIES), opaque_callees=STRING_OPAQUE, choices=choices)

    @staticmethod
    def string(s):
        return A.V_ref(A.Cell(A.V_sym("str:" + s)))

    def operand(self, frame, op):
        if op.get("k") == "const" and not op.get("fn"):
            s = None
            if op.get("val") and "str" in op["val"]:
                s = op["val"]["str"]
            elif op.get("tyconst") and op["tyconst"].startswith('"') and op["tyconst"].endswith('"') and "str" in (op.get("ty") or ""):
                s = op["tyconst"][1:-1]
            if s is not None:
                return self.string(s)
            if op.get("val") and "list" in op["val"]:
                return self.const_value(op["val"], op.get("ty") or "")
        return A.Interp.operand(self, frame, op)

    def const_value(self, val, ty):
        """An evaluated constant as rendered by the driver ({"list": [..]} / {"tuple": [..]} / {"str"} / {"int"} / {"variant", "adt"}) as a
        value: a constant table is an array literal like any other."""
        ty = ty.strip()
        if "list" in val:
            m = _ARRAY_TY.match(ty)
            ety = m.group(1) if m else ""
            return ("tuple", [self.const_value(x, ety) for x in val["list"]], "array")
        if "tuple" in val:
            etys = _split_top(ty[1:-1]) if ty.startswith("(") and ty.endswith(")") else []
            return A.V_tuple([self.const_value(x, etys[i] if i < len(etys) else "") for i, x in enumerate(val["tuple"])])
        if "str" in val:
            return self.string(val["str"])
        if "variant" in val and val.get("adt") and not val.get("fields"):
            return A.V_enum(val["adt"], self.vidx(val["adt"], val["variant"]), val["variant"], [])
        if "int" in val:
            return A.V_bool(val["int"]) if ty == "bool" else A.V_int(val["int"])
        raise A.LeavesFragment("constant table entry %r is not modelled" % (sorted(val),))

    def rvalue(self, fn, frame, rv):
        if rv["rv"] == "agg" and rv.get("agg") == "array":
            return ("tuple", [self.operand(frame, o) for o in rv["ops"]], "array")
        return A.Interp.rvalue(self, fn, frame, rv)

    def string_of(self, v):
        v = self.deref_all(v)
        return v[1][4:] if v is not None and v[0] == "sym" and v[1].startswith("str:") else None


OTHER = "\x00any other string"


def decide_string_tables(facts, to_fn, from_fn, adt):
    """Decide `to_fn: &Enum -> &str` and `from_fn: &str -> Result<Enum, _>` (or Option<Enum>) exactly.
    Returns {"to": {variant: string}, "from": {string: set of outcomes}, "compared": set of strings from_fn compares its
    input with}; an outcome is a variant name or "refused".  OTHER stands for every string that equals none of the strings the two
    functions mention.  Raises absint.LeavesFragment when either function does anything but compare strings for equality,
    branch, iterate over array literals and build values."""
    a = facts.adts.get(adt)
    if not a or any(v.get("fields") for v in a["variants"]):
        raise A.LeavesFragment("%s is not a field-less enum" % adt)
    to = {}
    for i, v in enumerate(a["variants"]):
        def run(ch, i=i, v=v):
            it = StrInterp(facts, ch)
            r = it.call_fn(to_fn, [A.V_ref(A.Cell(A.V_enum(adt, i, v["name"], [])))])
            _only_equalities(it)
            return it, it.string_of(r)
        outs = set(A.explore(run))
        if len(outs) != 1 or None in outs:
            raise A.LeavesFragment("%s of %s is not one constant string" % (to_fn.id, v["name"]))
        to[v["name"]] = outs.pop()
    frm = {}
    compared = set()
    todo = sorted(set(to.values())) + [OTHER]
    while todo:
        s = todo.pop(0)
        if s in frm:
            continue

        def run(ch, s=s):
            it = StrInterp(facts, ch)
            r = it.deref_all(it.call_fn(from_fn, [StrInterp.string(s)]))
            _only_equalities(it)
            seen = set(n[4:] for op, x, y in it.cmp_log for n in (x, y) if n.startswith("str:"))
            if r is None or r[0] != "enum" or r[1] not in ("std::result::Result", "std::option::Option"):
                raise A.LeavesFragment("%s does not return a Result / Option" % from_fn.id)
            if r[3] in ("Err", "None"):
                return it, ("refused", seen)
            p = it.deref_all(r[4][0])
            if p is None or p[0] != "enum" or p[1] != adt:
                raise A.LeavesFragment("%s returns something else than a %s" % (from_fn.id, adt))
            return it, (p[3], seen)
        outs = A.explore(run)
        frm[s] = set(o for o, seen in outs)
        for o, seen in outs:
            for x in seen - {OTHER}:
                compared.add(x)
                if x not in frm and x not in todo:
                    todo.append(x)
    return {"to": to, "from": frm, "compared": compared}


def _only_equalities(it):
    bad = sorted(set(op for op, x, y in it.cmp_log if op.lower() not in ("eq", "ne")))
    if bad:
        raise A.LeavesFragment("strings are ordered (%s), not just compared for equality" % ",".join(bad))


# ----------------------------------------------------------------------------- a hand-written JSON schema, by interpretation
_COLL_TY = re.compile(r"^(std::collections::(BTreeSet|BTreeMap|HashSet|HashMap)|indexmap::(set::)?IndexSet|indexmap::(map::)?IndexMap|schemars::(Map|Set)|std::vec::Vec)<")
_INSERT = re.compile(r"^(std::collections::(BTreeSet|BTreeMap|HashSet|HashMap)|indexmap::(set::)?IndexSet|indexmap::(map::)?IndexMap)::<.*>::insert$|^std::vec::Vec::<T, A>::push$")
_NEW_COLL = re.compile(r"^(std::collections::(BTreeSet|BTreeMap|HashSet|HashMap)|indexmap::(set::)?IndexSet|indexmap::(map::)?IndexMap|std::vec::Vec)::<.*>::new$")
_SAME_VALUE = re.compile(r"^std::convert::(Into::into|From::from)$|^std::string::ToString::to_string$|^std::borrow::ToOwned::to_owned$|^std::boxed::Box::<T>::new$|"
                         r"^std::clone::Clone::clone$|^<?std::string::String.*::from$")
_OPAQUE_SCHEMA = re.compile(r"^schemars::JsonSchema::(json_schema|schema_name)$|^schemars::r#?gen::SchemaGenerator::|^schemars::gen::SchemaGenerator::")


def _coll(items=()):
    return ("struct", "#coll", [A.V_tuple(list(items))])


def _copy_value(v, depth=0):
    if v is None or depth > 12:
        return v
    if v[0] == "struct":
        return ("struct", v[1], [_copy_value(x, depth + 1) for x in v[2]])
    if v[0] == "tuple":
        return ("tuple", [_copy_value(x, depth + 1) for x in v[1]]) + tuple(v[2:])
    if v[0] == "enum":
        return ("enum", v[1], v[2], v[3], [_copy_value(x, depth + 1) for x in v[4]])
    return v


class SchemaInterp(StrInterp):
    """StrInterp plus a model of *building a value*: `Default::default()` of a struct is that struct with empty collections in its
    collection-typed fields and opaque values elsewhere, `insert` / `push` / `extend` / `collect` move elements into collections,
    `into` / `to_string` / `Box::new` / `clone` hand their argument on.  What is asked afterwards is which string keys the collections of the
    returned value hold — the same answer for a struct literal over `[..].into_iter().collect()` and for a loop over a constant table that
    inserts into a default value."""

    def default_of(self, ty):
        ty = (ty or "").strip()
        if _COLL_TY.match(ty):
            return _coll()
        a = self.facts.adts.get(re.sub(r"<.*>$", "", ty))
        if a and a.get("kind") == "struct":
            return A.V_struct(a["id"], [_coll() if _COLL_TY.match(f["ty"]) else A.V_opaque("default:" + f["name"]) for f in a["variants"][0]["fields"]])
        return A.V_opaque("default")

    def coll_items(self, ref):
        v = self.deref_all(ref)
        if v is None or v[0] != "struct" or v[1] != "#coll":
            raise A.LeavesFragment("not a modelled collection")
        return v[2][0][1]

    def do_call(self, fn, frame, t, bb):
        callee = t.get("callee") or ""
        res = t.get("resolved") or ""
        if callee == "std::default::Default::default":
            m = re.match(r"^<(.+) as std::default::Default>::default$", res)
            return self.default_of(m.group(1) if m else "")
        if _NEW_COLL.match(callee):
            return _coll()
        if _OPAQUE_SCHEMA.match(callee):
            return A.V_opaque(callee)
        argv = None
        if _INSERT.match(callee) or _SAME_VALUE.match(callee) or callee in ("std::iter::Iterator::collect", "std::iter::FromIterator::from_iter", "std::iter::Extend::extend"):
            argv = [self.operand(frame, a) for a in t["args"]]
        if _INSERT.match(callee):
            self.coll_items(argv[0]).append(argv[1] if len(argv) == 2 else A.V_tuple(argv[1:]))
            return A.V_opaque("inserted")
        if _SAME_VALUE.match(callee) and len(argv) == 1:
            v = self.deref_all(argv[0])
            if v is not None and v[0] == "sym":
                return argv[0] if argv[0][0] == "ref" else A.V_ref(A.Cell(v))     # a string stays the string it is
            return _copy_value(v) if callee.endswith("Clone::clone") else argv[0]
        if callee in ("std::iter::Iterator::collect", "std::iter::FromIterator::from_iter", "std::iter::Extend::extend"):
            src = argv[-1]
            d = self.deref_all(src)
            if d is not None and d[0] == "tuple" and len(d) > 2 and d[2] == "array":
                src = _s_into_iter(self, [src], t)
            it = A.V_ref(A.Cell(src)) if src[0] != "ref" else src
            items = []
            while True:
                x = _iter_next(self, it)
                if x is None:
                    break
                items.append(x)
            if callee.endswith("Extend::extend"):
                self.coll_items(argv[0]).extend(items)
                return A.V_opaque("extended")
            return _coll(items)
        return StrInterp.do_call(self, fn, frame, t, bb)


def decide_object_schema(facts, fn, validation_adt="schemars::schema::ObjectValidation", object_adt="schemars::schema::SchemaObject"):
    """Interpret a hand-written `json_schema(gen)` and read the object validation off the value it returns.
    Returns {"required": set of strings, "properties": set of strings, "instance_types": set of variant names of the SchemaObject that holds the
    validation}.  Raises absint.LeavesFragment when the function does something the model does not cover, when paths disagree, or when
    the returned value does not hold exactly one object validation."""
    a = facts.adts.get(validation_adt)
    if not a:
        raise A.LeavesFragment("ADT %s unknown" % validation_adt)
    names = [f["name"] for f in a["variants"][0]["fields"]]
    so = facts.adts.get(object_adt)
    so_names = [f["name"] for f in so["variants"][0]["fields"]] if so else []

    def run(ch):
        it = SchemaInterp(facts, ch)
        r = it.call_fn(fn, [A.V_opaque("generator")] * fn.argc)
        found = []

        def enums_in(v, out, depth=0):
            v = it.deref_all(v)
            if v is None or depth > 10:
                return
            if v[0] == "enum":
                out.add(v[3])
            for x in (v[4] if v[0] == "enum" else v[2] if v[0] == "struct" else v[1] if v[0] == "tuple" else []):
                enums_in(x, out, depth + 1)

        def walk(v, holder, depth=0):
            v = it.deref_all(v)
            if v is None or depth > 12:
                return
            if v[0] == "struct" and v[1] == validation_adt:
                found.append((v, holder))
                return
            if v[0] == "struct" and v[1] == object_adt:
                holder = v
            for x in (v[4] if v[0] == "enum" else v[2] if v[0] == "struct" else v[1] if v[0] == "tuple" else []):
                walk(x, holder, depth + 1)
        walk(r, None)
        if len(found) != 1:
            raise A.LeavesFragment("the returned value holds %d object validations" % len(found))
        v, holder = found[0]

        def keys(field):
            out = set()
            for x in it.coll_items(v[2][names.index(field)]):
                x = it.deref_all(x)
                if x is not None and x[0] == "tuple" and x[1]:
                    x = x[1][0]
                s = it.string_of(x)
                if s is None:
                    raise A.LeavesFragment("a key of `%s` is not a constant string" % field)
                out.add(s)
            return frozenset(out)
        itypes = set()
        if holder is not None and "instance_type" in so_names:
            enums_in(holder[2][so_names.index("instance_type")], itypes)
        return it, (keys("required"), keys("properties"), frozenset(itypes - {"Some", "None"}))
    outs = set(A.explore(run))
    if len(outs) != 1:
        raise A.LeavesFragment("the schema differs between paths")
    req, props, itypes = outs.pop()
    return {"required": set(req), "properties": set(props), "instance_types": set(itypes)}


# ----------------------------------------------------------------------------- the merge of the members' extension modes, by interpretation
class Panics(Exception):
    """The interpreted function diverged through a panic (an outcome, not a failure of the analysis)."""


_PANIC_CALL = re.compile(r"^(core|std)::(panicking::\w+|rt::(panic_fmt|begin_panic\w*|panic_display|panic_explicit)|option::(unwrap_failed|expect_failed)|result::unwrap_failed)(::<.*>)?$")
_VEC_NEW = re.compile(r"^(std|alloc)::vec::Vec::<.*>::(new|with_capacity)$")
_VEC_APPEND = re.compile(r"^(std|alloc)::vec::Vec::<.*>::append$")
_EXTEND = re.compile(r"^std::iter::Extend::extend$|^(std|alloc)::vec::Vec::<.*>::extend$")
_MEM = re.compile(r"^(std|core)::mem::(replace|swap|take)$")
PAYLOAD = "mode-payload:"


def _s_into_iter_or_self(interp, argv, t):
    d = interp.deref_all(argv[0])
    if d is not None and d[0] == "struct" and d[1] == "#iter":
        return d
    return _s_into_iter(interp, argv, t)


def _as_iter_ref(interp, v):
    d = interp.deref_all(v)
    if d is None or d[0] != "struct" or d[1] != "#iter":
        raise A.LeavesFragment("not a modelled iterator")
    return v if v[0] == "ref" else A.V_ref(A.Cell(d))


def _s_fold(interp, argv, t):
    it = _as_iter_ref(interp, argv[0])
    acc = argv[1]
    while True:
        x = _iter_next(interp, it)
        if x is None:
            return acc
        acc = interp.call_closure(argv[2], acc, x)


def _s_for_each(interp, argv, t):
    it = _as_iter_ref(interp, argv[0])
    while True:
        x = _iter_next(interp, it)
        if x is None:
            return ("zst", None)
        interp.call_closure(argv[1], x)


class MergeInterp(SchemaInterp):
    """SchemaInterp for a function that calls the `metadata()` of a tuple's members and combines what they return.  A member's metadata —
    called directly, or through a function item / function pointer that travelled through a list, a fold or a helper — is a stub
    (`stub(Self type)` -> value); a panic ends the run with `Panics`; `==` / `!=` between two values of a modelled enum is structural, the
    payload of a variant being an opaque token that equals itself only; Vec::new / append / extend move list elements; a fold / for_each /
    for loop over an array literal runs its body once per element."""

    def __init__(self, facts, member_rx, self_of, stub, choices=()):
        SchemaInterp.__init__(self, facts, choices)
        self.member_rx = re.compile(member_rx)
        self.self_of = self_of
        self.stub = stub
        self.stub_calls = []
        self.summaries["std::iter::Iterator::fold"] = _s_fold
        self.summaries["std::iter::Iterator::for_each"] = _s_for_each
        self.summaries["std::iter::IntoIterator::into_iter"] = _s_into_iter_or_self

    def operand(self, frame, op):
        if op.get("k") == "const" and op.get("fn"):
            return ("zst", op["fn"], op.get("fn_args"))
        return SchemaInterp.operand(self, frame, op)

    def _member(self, self_ty):
        self.stub_calls.append(self_ty)
        return self.stub(self_ty)

    def _modelled_enum(self, v, depth=0):
        """A value made of enum variants whose payloads are the opaque tokens of the model (nothing unknown inside)."""
        v = self.deref_all(v)
        if v is None or depth > 6:
            return False
        if v[0] == "enum":
            return all(self._modelled_enum(x, depth + 1) for x in v[4])
        if v[0] == "tuple":
            return all(self._modelled_enum(x, depth + 1) for x in v[1])
        return v[0] == "opaque" and str(v[1]).startswith(PAYLOAD)

    def do_call(self, fn, frame, t, bb):
        callee = t.get("callee")
        res = t.get("resolved") or ""
        if callee is None and t.get("callee_op"):
            v = self.deref_all(self.operand(frame, t["callee_op"]))
            if v is None or v[0] != "zst" or not v[1]:
                raise A.LeavesFragment("indirect call of a value that is not a known function item at %s bb%d" % (fn.id, bb))
            argv = [self.operand(frame, a) for a in t["args"]]
            if self.member_rx.search(v[1]):
                return self._member(self.self_of({"callee_args": v[2] if len(v) > 2 else None}))
            if v[1] in self.facts.F:
                return self.call_fn(self.facts.F[v[1]], argv)
            raise A.LeavesFragment("indirect call of %s at %s bb%d" % (v[1], fn.id, bb))
        callee = callee or ""
        if "to" not in t:
            if _PANIC_CALL.match(callee):
                raise Panics(callee)
            raise A.LeavesFragment("diverging call of %s at %s bb%d" % (callee, fn.id, bb))
        if self.member_rx.search(callee):
            return self._member(self.self_of(t))
        m = A.CMP_RX.match(callee)
        if m and m.group(1) in ("eq", "ne") and len(t["args"]) == 2:
            a, b = [self.deref_all(self.operand(frame, x)) for x in t["args"]]
            if a is not None and b is not None and a[0] == "enum" and b[0] == "enum" and a[1] == b[1] and (a[4] or b[4]):
                if not (self._modelled_enum(a) and self._modelled_enum(b)):
                    raise A.LeavesFragment("comparison of enum values with unmodelled payloads at %s bb%d" % (fn.id, bb))
                return A.V_bool((A.strip(a) == A.strip(b)) == (m.group(1) == "eq"))
        if callee == "std::default::Default::default" and res in self.facts.F:
            return self.call_fn(self.facts.F[res], [])
        if _VEC_NEW.match(callee):
            return _coll()
        if _VEC_APPEND.match(callee) and len(t["args"]) == 2:
            dst, src = [self.operand(frame, x) for x in t["args"]]
            items = self.coll_items(src)
            self.coll_items(dst).extend(items)
            del items[:]
            return ("zst", None)
        if _EXTEND.match(callee) and len(t["args"]) == 2:
            dst, src = [self.operand(frame, x) for x in t["args"]]
            d = self.deref_all(src)
            if d is not None and d[0] == "struct" and d[1] == "#coll":
                self.coll_items(dst).extend(list(d[2][0][1]))
                return ("zst", None)
        mm = _MEM.match(callee)
        if mm:
            argv = [self.operand(frame, x) for x in t["args"]]
            if any(x is None or x[0] != "ref" for x in argv[:1] + (argv[1:] if mm.group(2) == "swap" else [])):
                raise A.LeavesFragment("mem::%s of something that is not a reference" % mm.group(2))
            old = A.read_path(argv[0][1], argv[0][2])
            if mm.group(2) == "replace":
                A.write_path(argv[0][1], argv[0][2], argv[1])
                return old
            if mm.group(2) == "swap":
                A.write_path(argv[0][1], argv[0][2], A.read_path(argv[1][1], argv[1][2]))
                A.write_path(argv[1][1], argv[1][2], old)
                return ("zst", None)
            if old is not None and old[0] == "struct" and old[1] == "#coll":
                A.write_path(argv[0][1], argv[0][2], _coll())
                return old
            dflt = [g for g in t.get("gargs") or [] if not g.startswith("'")]
            impl = "<%s as std::default::Default>::default" % dflt[0] if dflt else None
            if impl in self.facts.F:
                A.write_path(argv[0][1], argv[0][2], self.call_fn(self.facts.F[impl], []))
                return old
            raise A.LeavesFragment("mem::take of a value whose default is not modelled")
        return SchemaInterp.do_call(self, fn, frame, t, bb)


def mode_values(facts, mode_adt):
    """The values a member's extension mode is drawn from: every field-less variant once; a variant with a payload twice, with two
    different payload tokens (so that `same variant, same payload` and `same variant, other payload` both occur).  [(label, value maker)]"""
    a = facts.adts.get(mode_adt)
    if not a or a.get("kind") == "struct":
        raise A.LeavesFragment("%s is not an enum" % mode_adt)
    out = []
    for i, v in enumerate(a["variants"]):
        nf = len(v.get("fields") or [])
        for tok in (["a", "b"] if nf else [None]):
            label = v["name"] if tok is None else "%s(%s)" % (v["name"], tok)
            out.append((label, (lambda i=i, v=v, nf=nf, tok=tok: A.V_enum(mode_adt, i, v["name"], [A.V_opaque("%s%s%d" % (PAYLOAD, tok, k)) for k in range(nf)]))))
    return out


def decide_mode_merge(facts, md, members, member_rx, self_of, meta_adt, mode_adt, mode_field="extension_mode"):
    """Interpret `md` (a tuple's metadata()) once for every assignment of a mode value to every member.  Returns
    [(assignment {member: label}, {member: stripped value}, set of outcomes)], an outcome being "panics" or ("returns", stripped mode of the
    returned metadata).  Raises absint.LeavesFragment when some run leaves the modelled fragment (callers fail closed)."""
    a = facts.adts.get(meta_adt)
    if not a or a.get("kind") != "struct":
        raise A.LeavesFragment("%s is not a struct" % meta_adt)
    names = [f["name"] for f in a["variants"][0]["fields"]]
    if mode_field not in names:
        raise A.LeavesFragment("%s has no field %s" % (meta_adt, mode_field))
    values = mode_values(facts, mode_adt)
    out = []
    import itertools
    for combo in itertools.product(range(len(values)), repeat=len(members)):
        assign = {m: values[c] for m, c in zip(members, combo)}

        def stub(self_ty):
            if self_ty not in assign:
                raise A.LeavesFragment("metadata() of %s, which is not a member of the tuple, is called" % self_ty)
            return A.V_struct(meta_adt, [assign[self_ty][1]() if n == mode_field else
                                         (_coll([A.V_opaque("parameter-of:%s" % self_ty)]) if _COLL_TY.match(f["ty"]) else A.V_opaque("%s-of:%s" % (n, self_ty)))
                                         for n, f in zip(names, a["variants"][0]["fields"])])

        def run(ch):
            it = MergeInterp(facts, member_rx, self_of, stub, ch)
            try:
                r = it.deref_all(it.call_fn(md, [A.V_opaque("content-type")] * md.argc))
            except Panics:
                return it, "panics"
            if r is None or r[0] != "struct" or r[1] != meta_adt:
                raise A.LeavesFragment("%s does not return a %s" % (md.id, meta_adt))
            mode = it.deref_all(r[2][names.index(mode_field)])
            if mode is None or mode[0] != "enum" or mode[1] != mode_adt or not it._modelled_enum(mode):
                raise A.LeavesFragment("the returned %s is not a modelled %s" % (mode_field, mode_adt))
            return it, ("returns", A.strip(mode))
        outs = set(A.explore(run))
        out.append(({m: assign[m][0] for m in members}, {m: A.strip(assign[m][1]()) for m in members}, outs))
    return out
