"""Helpers of c07.py.

* path_states / variant_table: path-sensitive propagation of *known small values* (bool constants, field-less enum
  variants, discriminants) through copies, tuples and switches, with a record of which variant every watched
  `match` took.  `match x { A => (n, Loc::P), B => (n, Loc::Q) }; match loc { P => .., Q => .. }`, the same thing with
  a bool flag (`(n, false)` / `if in_query`), `A if matches!(y, A) => ..` and a plain nested match are one program for
  it: what is asked is "which constructions / calls are reachable when the watched value is variant V", never through
  which local the answer travels.  (Generic; candidate for engine.py next to bool_states_at.)
* decide_string_tables: decides an enum <-> string-constant pair of functions (`mime_type` / `from_mime_type`) by
  interpreting both with rules/absint.py over every variant and over every string either of them ever compares
  with (plus one string equal to none of them).
"""
from . import absint as A

# ----------------------------------------------------------------------------- path-sensitive small values


def _pkey(pl):
    """(local, field-index path) of a place that is a local or fields of a local; None for anything behind a pointer / downcast."""
    path = []
    for e in pl["p"]:
        if isinstance(e, dict) and "f" in e and "dc" not in e:
            path.append(e["f"])
        else:
            return None
    return (pl["l"], tuple(path))


def _is_prefix(a, b):
    return a[0] == b[0] and len(a[1]) <= len(b[1]) and b[1][:len(a[1])] == a[1]


def _mut_borrowed(f):
    memo = f.__dict__.get("_c07_mut_borrowed")
    if memo is None:
        memo = set()
        for b, i, st in f.stmts():
            rv = st["rv"]
            if rv["rv"] == "ref" and rv.get("mut") and "*" not in rv["pl"]["p"]:
                memo.add(rv["pl"]["l"])
            if rv["rv"] == "addr":
                memo.add(rv["pl"]["l"])
        f.__dict__["_c07_mut_borrowed"] = memo
    return memo


def switch_edges(f, sbb):
    """For a switch on an enum discriminant: {successor block: frozenset of variant names that take that edge}."""
    info = f.switch_on(sbb)
    out = {}
    if info.get("kind") != "discr":
        return out
    for v, n in info["variants"].items():
        out.setdefault(f.switch_target(sbb, v), set()).add(n)
    return {b: frozenset(ns) for b, ns in out.items()}


def path_states(f, starts, sites, watch=(), stops=(), max_states=60000):
    """Explore every path from the start states; returns {site block: [(env, facts)]} (state on entry to the block) or
    None when the state budget is exceeded (callers fail closed).

    starts: [(bb, env, facts)].  env: {(local, field path): value}, value = ("b", bool) | ("v", adt, variant name) |
    ("i", adt, variant index) (a discriminant read of a known variant).  facts: {watched switch bb: frozenset of variant
    names the scrutinee can have on the edge taken}.  A switch on a value known in env follows that value only; a
    watched switch on an unknown value forks and records the fact; any other switch forks.  Exploration does not
    continue past a block of `stops` (it may start there)."""
    facts_db = f.facts
    escaped = _mut_borrowed(f)
    watch = set(watch)
    stops = set(stops)
    sites = set(sites)
    edges = {s: switch_edges(f, s) for s in watch}
    out = {s: [] for s in sites}
    seen = set()
    work = [(bb, tuple(sorted(env.items())), tuple(sorted(fc.items())), True) for bb, env, fc in starts]
    n = 0

    def value_of(env, op):
        """{suffix path: value} carried by an operand."""
        if op.get("k") == "const":
            if op.get("ty") == "bool" and op.get("val") and "int" in op["val"]:
                return {(): ("b", bool(op["val"]["int"]))}
            return {}
        if op.get("k") in ("copy", "move"):
            k = _pkey(op["pl"])
            if k is None:
                return {}
            return {q[1][len(k[1]):]: v for q, v in env.items() if _is_prefix(k, q)}
        return {}

    def variant_index(adt, name):
        a = facts_db.adts.get(adt)
        for i, v in enumerate(a["variants"] if a else []):
            if v["name"] == name:
                return i
        return None

    while work:
        bb, env_t, facts_t, first = work.pop()
        key = (bb, env_t, facts_t)
        if key in seen:
            continue
        seen.add(key)
        n += 1
        if n > max_states:
            return None
        env = dict(env_t)
        facts = dict(facts_t)
        if bb in sites:
            out[bb].append((dict(env), dict(facts)))
        if bb in stops and not first:
            continue
        blk = f.blocks[bb]
        for st in blk["st"]:
            if st["s"] != "assign":
                continue
            k = _pkey(st["pl"])
            rv = st["rv"]
            new = {}
            kind = rv["rv"]
            if kind == "use":
                new = value_of(env, rv["op"])
            elif kind == "agg" and rv.get("agg") == "tuple":
                for i, o in enumerate(rv["ops"]):
                    for suf, v in value_of(env, o).items():
                        new[(i,) + suf] = v
            elif kind == "agg" and rv.get("agg") == "adt" and rv.get("variant") is not None:
                a = facts_db.adts.get(rv["adt"])
                if a and a.get("kind") != "struct":
                    new = {(): ("v", rv["adt"], rv["variant"])}
            elif kind == "discr":
                q = _pkey(rv["pl"])
                v = env.get(q) if q is not None else None
                if v is not None and v[0] == "v":
                    idx = variant_index(v[1], v[2])
                    if idx is not None:
                        new = {(): ("i", v[1], idx)}
            elif kind == "unop" and rv["op"] == "Not":
                v = value_of(env, rv["a"]).get(())
                if v is not None and v[0] == "b":
                    new = {(): ("b", not v[1])}
            elif kind == "binop" and rv["op"] in ("Eq", "Ne"):
                a_, b_ = value_of(env, rv["a"]).get(()), value_of(env, rv["b"]).get(())
                if a_ is not None and b_ is not None and a_[0] == b_[0] and a_[0] in ("b", "i"):
                    new = {(): ("b", (a_ == b_) == (rv["op"] == "Eq"))}
            # a moved-from temporary is dead
            for o in ([rv["op"]] if kind == "use" else rv.get("ops", []) if kind == "agg" else []):
                if o.get("k") == "move":
                    mk = _pkey(o["pl"])
                    if mk is not None:
                        for q in [q for q in env if _is_prefix(mk, q)]:
                            del env[q]
            if k is None:
                continue
            for q in [q for q in env if _is_prefix(k, q) or _is_prefix(q, k)]:
                del env[q]
            if k[0] not in escaped:
                for suf, v in new.items():
                    env[(k[0], k[1] + suf)] = v
        t = blk["term"]
        succs = list(f.succ(bb))
        if t["t"] == "call":
            k = _pkey(t["dest"])
            if k is not None:
                for q in [q for q in env if _is_prefix(k, q) or _is_prefix(q, k)]:
                    del env[q]
        elif t["t"] == "switch" and len(succs) > 1:
            d = t["discr"]
            dk = _pkey(d["pl"]) if d.get("k") in ("copy", "move") else None
            v = env.get(dk) if dk is not None else None
            if d.get("k") == "move" and dk is not None:
                env.pop(dk, None)
            if v is not None and v[0] in ("b", "i"):
                tgt = f.switch_target(bb, int(v[1]) if v[0] == "b" else v[2])
                succs = [tgt] if tgt in succs else []
            elif bb in watch and edges.get(bb):
                et = tuple(sorted(env.items()))
                for s in succs:
                    f2 = dict(facts)
                    f2[bb] = edges[bb].get(s, frozenset())
                    work.append((s, et, tuple(sorted(f2.items())), False))
                continue
        et, ft = tuple(sorted(env.items())), tuple(sorted(facts.items()))
        for s in succs:
            work.append((s, et, ft, False))
    return out


def variant_table(f, switch_bbs, target_adt_rx, extra_stops=()):
    """{variant of the scrutinee: set of variants of the target ADT built on some path through that arm}, united over the
    given switches (each is a `match` on the same kind of value).  An arm is explored from its target block until control
    returns to one of the switches (next loop iteration) or leaves the function; values decided inside the arm (a
    location enum, a bool flag) select the later branches.  None if the exploration budget is exceeded."""
    sites = {}
    for b, i, st in f.aggregates(target_adt_rx):
        sites.setdefault(b, set()).add(st["rv"]["variant"])
    table = {}
    stops = set(switch_bbs) | set(extra_stops)
    for sbb in switch_bbs:
        for tgt, names in switch_edges(f, sbb).items():
            if tgt not in f.succ(sbb):
                for n in names:
                    table.setdefault(n, set())
                continue
            # the arm knows which variant the scrutinee has: a re-match of the same place follows it
            info = f.switch_on(sbb)
            env = {}
            k = _pkey(info["place"])
            if k is not None and len(names) == 1 and k[0] not in _mut_borrowed(f):
                env[k] = ("v", info["adt"], sorted(names)[0])
            res = path_states(f, [(tgt, env, {})], sites.keys(), stops=stops)
            if res is None:
                return None
            built = set()
            for b, sts in res.items():
                if sts:
                    built |= sites[b]
            for n in names:
                table.setdefault(n, set()).update(built)
    return table


# ----------------------------------------------------------------------------- enum <-> string tables by interpretation
class _Ranks(dict):
    """Every distinct string is its own rank: only (in)equality is meaningful (checked by the caller on cmp_log)."""

    def __missing__(self, k):
        self[k] = len(self)
        return self[k]


def _s_into_iter(interp, argv, t):
    v = argv[0]
    d = interp.deref_all(v)
    if d is None or d[0] != "tuple" or (len(d) > 2 and d[2] != "array"):
        raise A.LeavesFragment("iteration over something that is not an array literal")
    by_ref = v[0] == "ref"
    items = [A.V_ref(A.Cell(x)) for x in d[1]] if by_ref else list(d[1])
    return ("struct", "#iter", [A.V_tuple(items), A.V_int(0)])


def _iter_next(interp, itref):
    if itref is None or itref[0] != "ref":
        raise A.LeavesFragment("iterator not passed by reference")
    cell, path = itref[1], itref[2]
    it = A.read_path(cell, path)
    if it is None or it[0] != "struct" or it[1] != "#iter":
        raise A.LeavesFragment("not a modelled iterator")
    items, pos = it[2][0][1], it[2][1][1]
    if pos >= len(items):
        return None
    it[2][1] = A.V_int(pos + 1)
    return items[pos]


def _s_next(interp, argv, t):
    x = _iter_next(interp, argv[0])
    return A.V_none() if x is None else A.V_some(x)


def _truth(interp, v):
    v = interp.deref_all(v)
    if v is None or v[0] != "bool":
        raise A.LeavesFragment("closure result is not a concrete bool")
    return v[1]


def _s_find(interp, argv, t):
    while True:
        x = _iter_next(interp, argv[0])
        if x is None:
            return A.V_none()
        if _truth(interp, interp.call_closure(argv[1], A.V_ref(A.Cell(x)))):
            return A.V_some(x)


def _s_find_map(interp, argv, t):
    while True:
        x = _iter_next(interp, argv[0])
        if x is None:
            return A.V_none()
        r = interp.deref_all(interp.call_closure(argv[1], x))
        if r is None or r[0] != "enum" or r[1] != "std::option::Option":
            raise A.LeavesFragment("find_map closure does not return an Option")
        if r[3] == "Some":
            return r


def _s_position(interp, argv, t):
    i = 0
    while True:
        x = _iter_next(interp, argv[0])
        if x is None:
            return A.V_none()
        if _truth(interp, interp.call_closure(argv[1], x)):
            return A.V_some(A.V_int(i))
        i += 1


def _s_copied(interp, argv, t):
    it = interp.deref_all(argv[0])
    if it is None or it[0] != "struct" or it[1] != "#iter":
        raise A.LeavesFragment("not a modelled iterator")
    return ("struct", "#iter", [A.V_tuple([interp.deref_all(x) for x in it[2][0][1]]), it[2][1]])


def _s_clone_enum(interp, argv, t):
    v = interp.deref_all(argv[0])
    if v is not None and (v[0] in ("sym", "opaque", "int", "bool") or (v[0] == "enum" and not v[4])):
        return v
    raise A.LeavesFragment("clone of an aggregate")


ITER_SUMMARIES = {
    "std::iter::IntoIterator::into_iter": _s_into_iter,
    "core::slice::<impl [T]>::iter": _s_into_iter,
    "std::slice::<impl [T]>::iter": _s_into_iter,
    "std::iter::Iterator::next": _s_next,
    "std::iter::Iterator::find": _s_find,
    "std::iter::Iterator::find_map": _s_find_map,
    "std::iter::Iterator::position": _s_position,
    "std::iter::Iterator::copied": _s_copied,
    "std::iter::Iterator::cloned": _s_copied,
    "std::clone::Clone::clone": _s_clone_enum,
}

STRING_OPAQUE = [r"^std::string::ToString::to_string$", r"^std::borrow::ToOwned::to_owned$", r"^std::convert::(From::from|Into::into)$", r"^(core|std|alloc)::fmt::", r"^alloc::fmt::format$",
                 r"^std::string::String::"]


class StrInterp(A.Interp):
    """absint interpreter in which string constants (named constants, literals, constant patterns of a `match` on a
    &str) and the string input are symbols that can only be compared for equality, and an array literal can be iterated."""

    def __init__(self, facts, choices=()):
        A.Interp.__init__(self, facts, _Ranks(), summaries=dict(ITER_SUMMARIES), opaque_callees=STRING_OPAQUE, choices=choices)

    @staticmethod
    def string(s):
        return A.V_ref(A.Cell(A.V_sym("str:" + s)))

    def operand(self, frame, op):
        if op.get("k") == "const" and not op.get("fn"):
            s = None
            if op.get("val") and "str" in op["val"]:
                s = op["val"]["str"]
            elif op.get("tyconst") and op["tyconst"].startswith('"') and op["tyconst"].endswith('"') and "str" in (op.get("ty") or ""):
                s = op["tyconst"][1:-1]
            if s is not None:
                return self.string(s)
        return A.Interp.operand(self, frame, op)

    def rvalue(self, fn, frame, rv):
        if rv["rv"] == "agg" and rv.get("agg") == "array":
            return ("tuple", [self.operand(frame, o) for o in rv["ops"]], "array")
        return A.Interp.rvalue(self, fn, frame, rv)

    def string_of(self, v):
        v = self.deref_all(v)
        return v[1][4:] if v is not None and v[0] == "sym" and v[1].startswith("str:") else None


OTHER = "\x00any other string"


def decide_string_tables(facts, to_fn, from_fn, adt):
    """Decide `to_fn: &Enum -> &str` and `from_fn: &str -> Result<Enum, _>` (or Option<Enum>) exactly.
    Returns {"to": {variant: string}, "from": {string: set of outcomes}, "compared": set of strings from_fn compares its
    input with}; an outcome is a variant name or "refused".  OTHER stands for every string that equals none of the strings the two
    functions mention.  Raises absint.LeavesFragment when either function does anything but compare strings for equality,
    branch, iterate over array literals and build values."""
    a = facts.adts.get(adt)
    if not a or any(v.get("fields") for v in a["variants"]):
        raise A.LeavesFragment("%s is not a field-less enum" % adt)
    to = {}
    for i, v in enumerate(a["variants"]):
        def run(ch, i=i, v=v):
            it = StrInterp(facts, ch)
            r = it.call_fn(to_fn, [A.V_ref(A.Cell(A.V_enum(adt, i, v["name"], [])))])
            _only_equalities(it)
            return it, it.string_of(r)
        outs = set(A.explore(run))
        if len(outs) != 1 or None in outs:
            raise A.LeavesFragment("%s of %s is not one constant string" % (to_fn.id, v["name"]))
        to[v["name"]] = outs.pop()
    frm = {}
    compared = set()
    todo = sorted(set(to.values())) + [OTHER]
    while todo:
        s = todo.pop(0)
        if s in frm:
            continue

        def run(ch, s=s):
            it = StrInterp(facts, ch)
            r = it.deref_all(it.call_fn(from_fn, [StrInterp.string(s)]))
            _only_equalities(it)
            seen = set(n[4:] for op, x, y in it.cmp_log for n in (x, y) if n.startswith("str:"))
            if r is None or r[0] != "enum" or r[1] not in ("std::result::Result", "std::option::Option"):
                raise A.LeavesFragment("%s does not return a Result / Option" % from_fn.id)
            if r[3] in ("Err", "None"):
                return it, ("refused", seen)
            p = it.deref_all(r[4][0])
            if p is None or p[0] != "enum" or p[1] != adt:
                raise A.LeavesFragment("%s returns something else than a %s" % (from_fn.id, adt))
            return it, (p[3], seen)
        outs = A.explore(run)
        frm[s] = set(o for o, seen in outs)
        for o, seen in outs:
            for x in seen - {OTHER}:
                compared.add(x)
                if x not in frm and x not in todo:
                    todo.append(x)
    return {"to": to, "from": frm, "compared": compared}


def _only_equalities(it):
    bad = sorted(set(op for op, x, y in it.cmp_log if op.lower() not in ("eq", "ne")))
    if bad:
        raise A.LeavesFragment("strings are ordered (%s), not just compared for equality" % ",".join(bad))
