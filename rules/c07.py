"""C07 — the OpenAPI document tells the truth about requests and responses."""
import re

from .lib import (ITER_PLUMBING, PLUMBING, borrow_root, callee_allow, callers, closure_args_of_call, element_sources, lit_strs, operand_local)
from . import absint as _A
from .lib_c07 import OTHER, _split_top, decide_mode_merge, decide_object_schema, decide_string_tables, fn_items_reaching, path_states, variant_table
from .lib_c12 import (STATUS_PATH, TO_STRING, Origin, agg_field_op, closure_captures, coded_impls, const_bool_operand, const_val, direct_element_sources, eval_bool_paths, field_sources, from_impls, norm_ty, op_const_path,
                      only_plumbing, params_of_type, ret_ok_sites, self_of_call)

LEVEL = "other"
TECHNIQUE = ("static analysis: sibling agreement between the document side (metadata / response_metadata / content_metadata / gen_openapi) and the runtime side "
             "(from_request / for_object / to_response / into_response) on generic arguments, evaluated constants, enum tables and ADT fields, read from type-checked MIR; "
             "abstract interpretation of the mime-type table pair")
LEVEL_TEXT = ("Decides that document and live behaviour are generated from the same declaration by the same constants: (R1) each extractor documents the type parameter it "
              "deserialises into, tuple extractors document exactly the members they extract, and ApiEndpoint::new documents the FuncParams/ResponseType of the handler it installs; "
              "(R2) Path/Query document the location they read from and that location reaches openapiv3::Parameter::{Path,Query} through total, matching tables; (R3) one "
              "from_mime_type(content_type) value feeds the documented body parameter and the body_content_type the router hands to the body extractor, mime_type/from_mime_type "
              "are inverse tables over the same constants, and the deserialiser is chosen on expected == requested; (R4) response_metadata and for_object use the same STATUS_CODE "
              "and the same Body type, every From<X> converts with X's own for_object, the document's status key is that value, and the JSON media-type key in the document is the "
              "constant the serialiser sends; (R5) the documented error schema is the struct HttpError::into_response serialises, its hand-written schema lists exactly the serialised "
              "fields and requires exactly the non-Option ones; (R6) StructMember.required = caller's required AND schema.required.contains(name) (exhaustive over the four truth "
              "assignments) and reaches ParameterData.required / Header.required unmodified. Not decided: that schemars' schema for T accepts exactly what serde's Deserialize for T "
              "accepts, and every value-level consequence (the 400 on a missing required parameter is serde's).")
LEVEL_NOTE = "Trusts rustc MIR construction, monomorphic typing of generic arguments, const evaluation, the fact extractor, schemars/serde derives, openapiv3 data types."
EXPLANATION = ("SIBLINGS-AGREE on generic arguments of get_metadata / make_subschema_for / metadata / from_request / for_object calls (resolved callee + generic args from MIR), "
               "SAME-SOURCE slices in ApiEndpoint::new / new_for_types and lookup_route, TABLE extraction from match arms (location, mime types, deserialiser choice), CONST evaluation "
               "of CONTENT_TYPE_* and STATUS_CODE, SHAPE of HttpErrorResponseBody vs the literals of its hand-written schema, exact evaluation of the boolean `required` expression over all paths to the construction site. "
               "Iterator chains and for loops are treated alike (a value is an *element* of a collection: Iterator::next in its slice, or the item parameter of an adaptor closure), closure "
               "captures are resolved in the enclosing function, anchors are roles (parameter types, field names, callees), never local names. Enum-to-enum tables (location) and the "
               "deserialiser guards are read off a path-sensitive propagation of small known values (bool flags, field-less variants, tuples of them) with a record of which variant each "
               "watched match took (lib_c07.path_states; a known value carried as the payload of an Option / a private enum is read back through the downcast), so a second match, an `if flag`, "
               "a `matches!` guard, a private `Format` enum or an inlined helper are the same program; mime_type / from_mime_type are "
               "decided by interpreting both (absint) over every variant, every string they mention and one string equal to none of them (a constant table is an array literal to the "
               "interpreter). The hand-written error schema is read off the value json_schema returns, by interpretation with a model of building collections (struct literal over collect(), "
               "inserts on a default value, a loop over a constant table). Tuple members are the Self types of direct metadata calls or of the function items that reach an indirect call "
               "(a fold / loop over a list of the members' metadata functions). Carrier structs and construction sites are anchored by role (fields, callers' region), not by the function "
               "or closure that happens to contain them; generic helpers are read at the instantiation of the call (engine substitution, or the FnDef type of a function value).")
TRUSTED = ["rustc nightly MIR construction + const evaluation", "mirfacts extractor", "rules/engine.py slices, dominators", "schemars derive + serde derive agree on field names",
           "openapiv3 serialisation", "C12 (status table, JSON serialisation)", "rules/absint.py interpreter + rules/lib_c07.py summaries of array iteration (into_iter / next / find / find_map) and of collection building "
           "(Default::default, new, insert / push / extend / collect, into / to_string / Box::new / clone as value-preserving)"]

DESER = r"^http_util::http_extract_path_params$|^serde_urlencoded::from_(str|bytes|reader)$|^serde_path_to_error::deserialize$|^serde_json::from_(slice|str|reader)$"
# ways the optional query string of the URI is handed to the deserialiser as it is: a default for "no query string", the same text as bytes,
# the whole of it as a slice
QUERY_AS_IS = [r"^http::Uri::query$", r"RequestInfo::uri$", r"Option::<T>::(unwrap_or|unwrap_or_default|map_or|map)$", r"str::<impl str>::as_bytes$",
               r"ops::Index::index$"]
MEDIA_JSON = "http_util::CONTENT_TYPE_JSON"
# the private carrier of a shared error response in gen_openapi (a struct of module api_description with fields name / reference / response),
# wherever it is declared
ERROR_RESPONSE_ADT = r"^api_description::"
ERROR_RESPONSE_FIELDS = {"name", "reference", "response"}
CT_ADT = "api_description::ApiEndpointBodyContentType"


def _impl_of(ds, trait_suffix, self_prefix):
    out = [i for i in ds.impls if i["trait"].endswith(trait_suffix) and norm_ty(i["self"]).startswith(self_prefix)]
    return out[0] if len(out) == 1 else None


def _impl_fn(ds, impl, name):
    for it in impl["items"]:
        if it["name"] == name and it["kind"] == "Fn":
            return ds.fn(it["id"])
    return None


def _type_arg(self_ty):
    m = re.match(r"^[\w:]+<(.*)>$", norm_ty(self_ty))
    return m.group(1) if m else None


def _region_fns(ds, f):
    return [ds.F[x] for x in sorted(ds.region([f.id]))]


def _fnitems(f):
    out = []

    def walk(o):
        if isinstance(o, dict):
            if o.get("k") == "const" and o.get("fn"):
                out.append(o)
            for v in o.values():
                walk(v)
        elif isinstance(o, list):
            for v in o:
                walk(v)
    for blk in f.blocks:
        if not blk["cleanup"]:
            walk(blk["st"])
            walk(blk["term"])
    return out


def _self_ty(t):
    """Self type of a trait-method call: the first generic argument of the resolved callee (for a call inlined from a generic helper the
    engine has substituted the helper's type parameters there, while the printed path still shows the helper's parameter name)."""
    ga = [g for g in (t.get("gargs") or []) if not g.startswith("'")]
    return norm_ty(ga[0]) if ga else self_of_call(t)


def _last_garg(t):
    ga = [g for g in (t.get("gargs") or []) if not g.startswith("'")]
    return norm_ty(ga[-1]) if ga else None


# ----------------------------------------------------------------------------- R1
def _deser_calls(ds, g, op, depth=0):
    """Deserialiser calls the operand derives from.  `let v = deser(..)?; X { inner: v }`, `match deser(..) { Ok(v) => Ok(X { inner: v }), .. }` and
    `deser(..).map(|v| X { inner: v })` are the same thing: in the last form the value is the item parameter of a closure given to a
    payload combinator, and the payload is the receiver of that combinator in the enclosing function."""
    sl = g.slice(op)
    out = list(sl.calls(DESER))
    if g.raw.get("kind") == "Closure" and any(p >= 2 for p in sl.params()) and depth < 3:
        for h, st in closure_captures(ds, g):
            for bb, t in h.live_calls(r"(Result::<T, E>|Option::<T>)::(map|and_then|map_or|map_or_else)$"):
                if any(c is g for c, node in closure_args_of_call(h, t)):
                    out += _deser_calls(ds, h, t["args"][0], depth + 1)
    return out


MEMBER_MD = r"extractor::common::\w+Extractor::metadata$"
# ways of turning a list literal into the iterator that visits every element of it once
WHOLE_LIST_ITER = [r"slice::<impl \[T\]>::iter$", r"iter::IntoIterator::into_iter$", r"vec::Vec::<T, A>::iter$", r"iter::Iterator::(copied|cloned)$"]
APPEND = r"vec::Vec::<T, A>::(append|extend)$|iter::Extend::extend$"


def _member_sites(ds, md):
    """Where a tuple's metadata() computes the metadata of its members: [(fn, bb, call, [member types], via)].  A member is named by a direct
    call `<M as _Extractor>::metadata(..)`, or it is a function item `<M as _Extractor>::metadata` that reaches an indirect call — as the
    called value itself or as an element of the list the called value is drawn from (via = [(fn, iterator operand, how, the list is
    iterated as a whole)]: a loop over / a fold of a list of the members' metadata functions documents every member on the list)."""
    out = []
    for h in [md] + ds.descendants(md):
        for bb, t in h.live_calls():
            c = t.get("callee")
            if c and re.search(MEMBER_MD, c):
                out.append((h, bb, t, [self_of_call(t) or "?"], None))
            elif not c and t.get("callee_op"):
                items = list(fn_items_reaching(h, t["callee_op"]))
                via = []
                for cf, it_op, how in direct_element_sources(ds, h, t["callee_op"]):
                    items += fn_items_reaching(cf, it_op)
                    via.append((cf, it_op, how, only_plumbing(cf.slice(it_op), WHOLE_LIST_ITER)))
                members = [self_of_call({"callee_args": o.get("fn_args")}) or "?" for o in items if re.search(MEMBER_MD, o["fn"])]
                if members:
                    out.append((h, bb, t, members, via))
    return out


def _member_documented(ds, md, h, bb, t, via):
    """(the member's metadata() is given the content type metadata() itself received, the parameters it returns end up in the list
    metadata() returns).  The second holds when the call's result is returned as it is, or when its `parameters` are appended to the list
    stored in the returned ExtractorMetadata; for a call inside the closure of a fold over the members, when that closure appends them to
    the accumulator's list, returns it, and the fold's result is what metadata() returns."""
    o = Origin(ds, h, t["args"][0]) if t["args"] else None
    okc = o is not None and o.params_of(md) == [1] and not o.bad_callees() and not o.unresolved and not o.item_params and not o.computed()
    ret = h.slice({"l": 0, "p": []})
    ret_sites = [(b, st) for b, i, st in h.aggregates(r"^extractor::common::ExtractorMetadata$") if st["pl"]["l"] == 0 and b in h.reachable(0)]
    direct = any(ct is t for c, cb, ct in ret.callees) and not ret_sites
    merged, keeps_acc = False, False
    for b, st in ret_sites:
        pop = agg_field_op(st, "parameters")
        ps = h.slice(pop) if pop else None
        plocs = ps.locals() if ps else set()
        for abb, at in h.live_calls(APPEND):
            s0, s1 = h.slice(at["args"][0]), h.slice(at["args"][1])
            if (plocs & s0.locals()) and t["dest"]["l"] in s1.locals() and s1.reads_field("parameters"):
                merged = True
                keeps_acc = 2 in ps.params() and ps.reads_field("parameters")
    if h is md:
        return okc, (direct or merged) and all(how == "next" for cf, it_op, how, ex in (via or []))
    # inside a closure: only the accumulating closure of a fold over the members is understood
    if not via or not merged or not keeps_acc or sorted(h.slice(t["callee_op"]).params()) != [3]:
        return okc, False
    mret = md.slice({"l": 0, "p": []})
    for cf, it_op, how, ex in via:
        folds = [(fb, ft) for fb, ft in cf.live_calls(r"iter::Iterator::fold$") if any(g is h for g, node in closure_args_of_call(cf, ft))]
        if how != "adaptor:fold" or cf is not md or len(folds) != 1 or not any(ct is folds[0][1] for c, cb, ct in mret.callees) or \
                any(True for b, i, st in md.aggregates(r"^extractor::common::ExtractorMetadata$") if st["pl"]["l"] == 0):
            return okc, False
    return okc, True


def r1_type_parameter(ctx):
    R = ctx.rule("C07.R1", "the document side and the runtime side of every extractor are instantiated with the same type: Path/Query/TypedBody document the parameter they "
                 "deserialise into; tuple extractors document exactly the members they extract; ApiEndpoint::new documents the handler's FuncParams / ResponseType", floor=32)
    ds = ctx.ds
    for kind, trait, adt in (("Path", "SharedExtractor", "extractor::path::Path"), ("Query", "SharedExtractor", "extractor::query::Query"),
                             ("TypedBody", "ExclusiveExtractor", "extractor::body::TypedBody")):
        im = _impl_of(ds, "extractor::common::" + trait, adt + "<")
        if im is None:
            ctx.lost(R, "impl %s for %s<_>" % (trait, adt))
            continue
        P = _type_arg(im["self"])
        md, fr = _impl_fn(ds, im, "metadata"), _impl_fn(ds, im, "from_request")
        if md is None or fr is None:
            ctx.lost(R, "metadata/from_request of %s" % adt)
            continue
        a = ds.adts.get(adt)
        fields = [(x["name"], norm_ty(x["ty"])) for x in a["variants"][0]["fields"]] if a else []
        # document side
        if kind == "TypedBody":
            items = [o for o in _fnitems(md) if o["fn"] in ("schema_util::make_subschema_for", "schemars::JsonSchema::schema_name")]
            want = {"schema_util::make_subschema_for::<%s>" % P, "<%s as schemars::JsonSchema>::schema_name" % P}
            got = set(o.get("fn_args") for o in items)
            ret = md.slice({"l": 0, "p": []})
            in_ret = any(a_[0] == "fnitem" and a_[1] == "schema_util::make_subschema_for" for a_ in ret.atoms)
            ctx.check(R, "%s:documents-its-parameter" % kind, got == want and in_ret,
                      "schema generator items in metadata(): %s (want %s); they reach the returned metadata=%s" % (sorted(got), sorted(want), in_ret), md)
        else:
            gm = md.live_calls(r"^extractor::metadata::get_metadata$")
            ok = len(gm) == 1 and _last_garg(gm[0][1]) == P
            ret = md.slice({"l": 0, "p": []})
            ctx.check(R, "%s:documents-its-parameter" % kind, ok and ret.has_call(r"get_metadata$") and only_plumbing(ret, [r"get_metadata$"]),
                      "metadata() returns get_metadata::<%s>() (impl parameter %s)" % (_last_garg(gm[0][1]) if gm else None, P), md)
        # runtime side: the value stored in the extractor comes from a deserialiser instantiated at the ADT's parameter
        ctx.check(R, "%s:holds-its-parameter" % kind, fields == [("inner", P)], "fields of %s: %s (want inner: %s)" % (adt, fields, P), nontrivial=False)
        sites = []
        for g in _region_fns(ds, fr):
            for b, i, st in g.aggregates("^" + re.escape(adt) + "$"):
                if b in g.reachable(0):
                    sites.append((g, b, st))
        if len(sites) != 1:
            ctx.check(R, "%s:deserialises-into-its-parameter" % kind, False, "construction sites of %s reachable from from_request: %d (want 1)" % (adt, len(sites)), fr)
            continue
        g, b, st = sites[0]
        des = _deser_calls(ds, g, st["rv"]["ops"][0])
        tys = set(_last_garg(t) for c, bb, t in des)
        ctx.check(R, "%s:deserialises-into-its-parameter" % kind, bool(des) and tys == {P},
                  "`inner` derives from %s instantiated at %s (want %s)" % (sorted(set(c for c, _, _ in des)), sorted(x or "?" for x in tys), P), (g, b))

    # blanket Shared->Exclusive and tuple impls: same members on both sides
    tup = [i for i in ds.impls if i["trait"].endswith("extractor::common::RequestExtractor") or
           (i["trait"].endswith("extractor::common::ExclusiveExtractor") and re.match(r"^\w+/#\d+$", i["self"]))]
    for im in tup:
        x = norm_ty(im["self"])
        md, fr = _impl_fn(ds, im, "metadata"), _impl_fn(ds, im, "from_request")
        if md is None or fr is None:
            ctx.lost(R, "metadata/from_request of impl for %s" % x)
            continue
        body = ds.body_of(fr)
        run = sorted(self_of_call(t) or "?" for g in [body] + ds.descendants(body) for bb, t in g.live_calls(r"extractor::common::\w+Extractor::from_request$"))
        sites = _member_sites(ds, md)
        doc = sorted(m for h, bb, t, members, via in sites for m in members)
        whole = all(ex for h, bb, t, members, via in sites for cf, it_op, how, ex in (via or []))
        ctx.check(R, "members:%s" % x, run == doc and whole, "from_request extracts %s; metadata documents %s%s" % (
            run, doc, "" if whole else " (through a list of member functions that is not iterated as a whole)"), md)
        # each member's metadata gets the endpoint's content type and its parameters reach the returned list
        for h, bb, t, members, via in sites:
            okc, reach = _member_documented(ds, md, h, bb, t, via)
            for m in members:
                ctx.check(R, "member-documented:%s:%s" % (x, m), okc and reach,
                          "metadata of member %s: receives the endpoint content type=%s; its parameters reach the returned list=%s" % (m, okc, reach), (h, bb))

    # ApiEndpoint::new: the types documented are the handler's
    new = ctx.need_fn(ds, R, r"^api_description::ApiEndpoint::<Context>::new$")
    hn = new.live_calls(r"^handler::HttpRouteHandler::<.*>::new$")
    mc = new.live_calls(r"extractor::common::RequestExtractor::metadata$")
    rc = new.live_calls(r"handler::HttpResponse::response_metadata$")
    ec = new.live_calls(r"ApiEndpointErrorResponse::for_type$")
    if len(hn) != 1 or len(mc) != 1 or len(rc) != 1 or len(ec) != 1:
        ctx.lost(R, "HttpRouteHandler::new / metadata / response_metadata / for_type calls in ApiEndpoint::new")
    else:
        ga = hn[0][1].get("gargs") or []
        ctx.check(R, "new:documents-handler-params", len(ga) == 4 and (mc[0][1].get("gargs") or [None])[0] == ga[2],
                  "metadata is %s::metadata; handler extracts %s" % ((mc[0][1].get("gargs") or [None])[0], ga[2] if len(ga) > 2 else None), (new, mc[0][0]))
        ctx.check(R, "new:documents-handler-response", len(ga) == 4 and (rc[0][1].get("gargs") or [None])[0] == ga[3],
                  "response_metadata is on %s; handler returns %s" % ((rc[0][1].get("gargs") or [None])[0], ga[3] if len(ga) > 3 else None), (new, rc[0][0]))
        eg = (ec[0][1].get("gargs") or [""])[0]
        ctx.check(R, "new:documents-handler-error", "handler::HttpHandlerFunc::Error" in eg and all(g in eg for g in ga),
                  "error schema generated for %s" % (ec[0][1].get("callee_args")), (new, ec[0][0]))
    nft = ctx.need_fn(ds, R, r"^api_description::ApiEndpoint::<api_description::StubContext>::new_for_types$")
    for f in (new, nft):
        tag = f.id.split("::")[-1]
        aggs = [(b, st) for b, i, st in f.aggregates(r"^api_description::ApiEndpoint$") if b in f.reachable(0)]
        if len(aggs) != 1:
            ctx.lost(R, "ApiEndpoint aggregate in %s" % tag)
            continue
        b, st = aggs[0]
        for field, pat in (("parameters", r"RequestExtractor::metadata$"), ("extension_mode", r"RequestExtractor::metadata$"),
                           ("response", r"HttpResponse::response_metadata$"), ("error", r"ApiEndpointErrorResponse::for_type$")):
            sl = f.slice(agg_field_op(st, field))
            bad = callee_allow(sl, PLUMBING + [pat, r"ApiEndpointBodyContentType::from_mime_type$", r"Result::<T, E>::expect$", r"Result::<T, E>::unwrap$"])
            ctx.check(R, "%s:field-%s" % (tag, field), sl.has_call(pat) and not bad, "ApiEndpoint.%s derives from %s; other callees %s" % (field, pat, [x[0] for x in bad]), (f, b))


# ----------------------------------------------------------------------------- R2
def _discr_switches(f, adt):
    out = []
    reach = f.reachable(0)
    for sbb, t in f.switches():
        if sbb in reach:
            info = f.switch_on(sbb)
            if info["kind"] == "discr" and info["adt"] == adt:
                out.append(sbb)
    return out


def r2_location(ctx):
    R = ctx.rule("C07.R2", "Path documents location Path and reads the routing variables; Query documents location Query and reads the URI query; the location reaches "
                 "openapiv3::Parameter::{Path,Query} through matching tables", floor=8)
    ds = ctx.ds
    LOC = "api_description::ApiEndpointParameterLocation"
    META = "api_description::ApiEndpointParameterMetadata"
    for kind, adt, src_desc in (("Path", "extractor::path::Path", "rqctx.endpoint.variables"), ("Query", "extractor::query::Query", "request.uri().query()")):
        im = _impl_of(ds, "extractor::common::SharedExtractor", adt + "<")
        if im is None:
            ctx.lost(R, "impl SharedExtractor for %s" % adt)
            continue
        md, fr = _impl_fn(ds, im, "metadata"), _impl_fn(ds, im, "from_request")
        gm = md.live_calls(r"^extractor::metadata::get_metadata$")
        locs = set()
        for bb, t in gm:
            sl = md.slice(t["args"][0])
            locs |= set(a[2] for a in sl.atoms if a[0] == "agg" and a[1] == LOC)
        ctx.check(R, "%s:documented-location" % kind, len(gm) == 1 and locs == {kind}, "get_metadata(&ApiEndpointParameterLocation::%s) (want %s)" % (sorted(locs), kind), md)
        found = False
        for g in _region_fns(ds, fr):
            for bb, t in g.live_calls(DESER):
                sl = g.slice(t["args"][0])
                found = True
                if kind == "Path":
                    ok = sl.reads_field("variables") and sl.reads_field("endpoint") and only_plumbing(sl)
                else:
                    # `x[..]` is all of x; any other index expression selects a part
                    whole = all(re.match(r"^std::ops::RangeFull$", g.local_ty(operand_local(ct["args"][1])) or "") for c, cb, ct in sl.calls(r"ops::Index::index$"))
                    fnitems = set(a_[1] for a_ in sl.atoms if a_[0] == "fnitem")
                    ok = sl.has_call(r"^http::Uri::query$") and sl.has_call(r"RequestInfo::uri$") and only_plumbing(sl, QUERY_AS_IS) and whole and \
                        all(re.search(r"str::<impl str>::as_bytes$", x) for x in fnitems) and not any(a_[0] == "agg" and "{closure" in str(a_[1]) for a_ in sl.atoms)
                ctx.check(R, "%s:runtime-source" % kind, ok, "deserialiser input derives from %s: %s (callees %s)" % (src_desc, ok, sl.callee_names()), (g, bb))
        if not found:
            ctx.lost(R, "deserialiser call under %s::from_request" % adt)
    # get_metadata hands `loc` to new_named
    gmf = ctx.need_fn(ds, R, r"^extractor::metadata::get_metadata$")
    nn_calls = [(g, bb, t) for g in [gmf] + ds.descendants(gmf) for bb, t in g.live_calls(r"ApiEndpointParameter::new_named$")]
    ok = False
    for g, bb, t in nn_calls:
        sl = g.slice(t["args"][0])
        if g is gmf:
            ok = sl.params() == [1] and only_plumbing(sl)
        else:
            # closure: the location is a captured upvar; the parent captured its own parameter 1
            ups = [p for p in sl.param_fields() if p[0] == 1]
            idx = [int(e[1:].split(":")[0]) for p in ups for e in p[1] if e.startswith("f")][:1]
            for pbb, pt in gmf.live_calls():
                for h, node in closure_args_of_call(gmf, pt):
                    if h is g and idx and idx[0] < len(node["rv"]["ops"]):
                        ps = gmf.slice(node["rv"]["ops"][idx[0]])
                        ok = ps.params() == [1] and only_plumbing(ps) and only_plumbing(sl)
    ctx.check(R, "get_metadata:location-forwarded", len(nn_calls) == 1 and ok, "new_named receives get_metadata's `loc` unmodified: %s" % ok, gmf)
    # new_named: Location -> Metadata
    nn = ctx.need_fn(ds, R, r"^api_description::ApiEndpointParameter::new_named$")
    # a table is read as "which variants of the target are built on some path on which the scrutinee is variant V": values decided in
    # an arm (an intermediate location enum, a bool flag, a tuple of them) select the later branches, so the answer does not depend on
    # whether the construction sits in the arm, behind a second match, behind an `if flag`, or in an inlined helper
    sw = _discr_switches(nn, LOC)
    t1 = variant_table(nn, sw, "^" + re.escape(META) + "$") if sw else {}
    ctx.check(R, "new_named:location-table", t1 == {"Path": {"Path"}, "Query": {"Query"}}, "Location -> ParameterMetadata: %s" % t1, nn)
    # gen_openapi: Metadata -> openapiv3::Parameter
    go = ctx.need_fn(ds, R, r"^api_description::ApiDescription::<Context>::gen_openapi$")
    pcs = [g for g in [go] + ds.descendants(go) if any(True for _ in g.aggregates(r"^openapiv3::ParameterData$"))]
    if len(pcs) != 1:
        ctx.lost(R, "the gen_openapi function / closure that builds openapiv3::ParameterData")
        return
    pc = pcs[0]
    msw = _discr_switches(pc, META)
    table = variant_table(pc, msw, r"^openapiv3::Parameter$") if msw else {}
    # every such match is on the `metadata` of an element of endpoint.parameters
    on_param = bool(msw)
    for sbb in msw:
        pop = {"k": "copy", "pl": pc.switch_on(sbb)["place"]}
        e_ok, e_why, _ = _element_of(ds, pc, pop, ("field", "parameters"))
        on_param = on_param and e_ok and pc.slice(pop, stop_at_calls=r"iter::Iterator::next$").reads_field("metadata")
    ctx.check(R, "gen_openapi:location-table", on_param and table == {"Path": {"Path"}, "Query": {"Query"}, "Body": set()},
              "ParameterMetadata -> openapiv3::Parameter: %s (Body parameters are not listed as parameters); the value matched is param.metadata of an element of endpoint.parameters: %s" % (table, on_param), pc)
    # the parameter name in the document is the metadata's name
    for b, i, st in pc.aggregates(r"^openapiv3::ParameterData$"):
        sl = pc.slice(agg_field_op(st, "name"), stop_at_calls=r"iter::Iterator::next$")
        e_ok, e_why, _ = _element_of(ds, pc, agg_field_op(st, "name"), ("field", "parameters"))
        ctx.check(R, "gen_openapi:parameter-name", sl.reads_field("metadata") and only_plumbing(sl, [r"iter::Iterator::next$"]) and e_ok,
                  "ParameterData.name derives from param.metadata of an %s: callees %s" % (e_why, sl.callee_names()), (pc, b))


# ----------------------------------------------------------------------------- R3
def _mime_tables(ctx, R):
    ds = ctx.ds
    CT = "api_description::ApiEndpointBodyContentType"
    mt = ctx.need_fn(ds, R, r"^api_description::ApiEndpointBodyContentType::mime_type$")
    fm = ctx.need_fn(ds, R, r"^api_description::ApiEndpointBodyContentType::from_mime_type$")
    to_str = {}
    sw = _discr_switches(mt, CT)
    if len(sw) == 1:
        info = mt.switch_on(sw[0])
        for v, n in info["variants"].items():
            tb = mt.switch_target(sw[0], v)
            others = set()
            for v2 in info["variants"]:
                ob = mt.switch_target(sw[0], v2)
                if ob != tb:
                    others |= mt.reachable(ob)
            mine = mt.reachable(tb) - others
            vals = set()
            for blk in mt.blocks:
                if blk["bb"] in mine:
                    for st in blk["st"]:
                        if st["s"] == "assign" and st["rv"]["rv"] == "use" and st["rv"]["op"].get("k") == "const":
                            o = st["rv"]["op"]
                            if o.get("val") and "str" in o["val"]:
                                vals.add(o["val"]["str"])
            to_str[n] = vals
    # from_mime_type as a table literal -> variant, read off the path facts: a variant built on a path on which exactly the comparison with
    # literal L came out true is the image of L — whether the comparisons are match arms, an if / else-if chain, early returns or named flags
    from_str = {}
    other_outcomes = []
    lit_of = {}
    for bb, t in fm.live_calls(r"cmp::PartialEq::eq$"):
        lits = set()
        for a in t["args"]:
            if a.get("k") == "const":
                if a.get("tyconst"):
                    lits.add(a["tyconst"].strip('"'))
                elif a.get("val") and "str" in a["val"]:
                    lits.add(a["val"]["str"])
            else:
                lits |= lit_strs(fm.slice(a))
        if len(lits) != 1:
            other_outcomes.append(bb)
            continue
        lit_of[("call", bb)] = lits.pop()
        from_str.setdefault(lit_of[("call", bb)], set())
    reach = fm.reachable(0)
    for b, i, st in fm.aggregates("^" + re.escape(CT) + "$"):
        if b not in reach:
            continue
        states = fm.bool_states_at(b)
        if states is None:
            other_outcomes.append(b)
            continue
        for fs in states:
            trues = [a for a, v in fs.items() if v and a in lit_of]
            if not trues:
                other_outcomes.append(b)     # a content type produced without any literal having matched
            for a in trues:
                from_str[lit_of[a]].add(st["rv"]["variant"])
    return mt, fm, to_str, from_str, other_outcomes


def r3_content_type(ctx):
    R = ctx.rule("C07.R3", "one from_mime_type(content_type) value feeds the documented body parameter and the body_content_type the router passes to the body extractor; mime_type and "
                 "from_mime_type are inverse tables; the body deserialiser is chosen on expected == requested", floor=21)
    ds = ctx.ds
    for f in (ctx.need_fn(ds, R, r"^api_description::ApiEndpoint::<Context>::new$"),
              ctx.need_fn(ds, R, r"^api_description::ApiEndpoint::<api_description::StubContext>::new_for_types$")):
        tag = f.id.split("::")[-1]
        fms = f.live_calls(r"ApiEndpointBodyContentType::from_mime_type$")
        ctx.check(R, "%s:one-from_mime_type" % tag, len(fms) == 1, "from_mime_type calls: %d" % len(fms), f)
        if len(fms) != 1:
            continue
        fbb, ft = fms[0]
        # the parsed string is one of the constructor's own &str arguments, unmodified — and not the one stored as the endpoint's path
        sl = f.slice(ft["args"][0])
        strs = [i for i in range(1, f.argc + 1) if re.match(r"^&(\S+ )?str$", f.local_ty(i) or "")]
        path_params = []
        for b, i, st in f.aggregates(r"^api_description::ApiEndpoint$"):
            pop = agg_field_op(st, "path")
            path_params += f.slice(pop).params() if pop else []
        computed = [a for a in sl.atoms if a[0] in ("lit", "const", "binop", "unop")]
        okp = len(sl.params()) == 1 and sl.params()[0] in strs and sl.params()[0] not in path_params and only_plumbing(sl) and not computed
        ctx.check(R, "%s:parses-the-declared-content-type" % tag, okp,
                  "from_mime_type argument derives from params %s (&str params %s; the path is param %s) via %s" % (sl.params(), strs, sorted(set(path_params)), sl.callee_names()), (f, fbb))
        allow = PLUMBING + [r"ApiEndpointBodyContentType::from_mime_type$", r"Result::<T, E>::expect$", r"Result::<T, E>::unwrap$"]
        for bb, t in f.live_calls(r"extractor::common::RequestExtractor::metadata$"):
            ms = f.slice(t["args"][0])
            same = [b for c, b, _ in ms.calls(r"from_mime_type$")] == [fbb]
            ctx.check(R, "%s:documented-with-it" % tag, same and not callee_allow(ms, allow), "FuncParams::metadata(..) receives the parsed content type: %s" % same, (f, bb))
        for b, i, st in f.aggregates(r"^api_description::ApiEndpoint$"):
            bs = f.slice(agg_field_op(st, "body_content_type"))
            same = [bb for c, bb, _ in bs.calls(r"from_mime_type$")] == [fbb]
            ctx.check(R, "%s:served-with-it" % tag, same and not callee_allow(bs, allow), "ApiEndpoint.body_content_type is the same parsed value: %s" % same, (f, b))
    # router hands the endpoint's value to the request context
    lr = ctx.need_fn(ds, R, r"^router::HttpRouter::<Context>::lookup_route$")
    # the construction site is looked for under lookup_route wherever the refactoring of the day puts it: in the function itself, in a
    # closure of it (`segments(..).map_err(..).and_then(|s| self.lookup_segments(..))` with the helper inlined into the closure)
    aggs = [(g, b, st) for g in [lr] + ds.descendants(lr) for b, i, st in g.aggregates(r"^handler::RequestEndpointMetadata$") if b in g.reachable(0)]
    who = [(g.id, b) for g in ds.F.values() if not g.id.startswith(("test_util", "websocket")) for b, i, st in g.aggregates(r"^handler::RequestEndpointMetadata$")]
    ctx.check(R, "router:one-construction-site", len(aggs) == 1 and len(who) == 1, "RequestEndpointMetadata built at %s" % sorted(set(w[0] for w in who)), lr)
    for g, b, st in aggs:
        bs = g.slice(agg_field_op(st, "body_content_type"), stop_at_calls=r"find_handler_matching_version$")
        ok = bs.reads_field("body_content_type") and bs.has_call(r"find_handler_matching_version$") and only_plumbing(bs, [r"find_handler_matching_version$"])
        if not ok:
            from .lib_c01 import answer_field_from_selection
            lrn = ctx.dsn.one(r"^router::HttpRouter::<Context>::lookup_route$")
            an = [(h, st2) for h in ([lrn] + ctx.dsn.descendants(lrn) if lrn else []) for b2, i2, st2 in h.aggregates(r"^handler::RequestEndpointMetadata$") if b2 in h.reachable(0)]
            ok = len(an) == 1 and answer_field_from_selection(ctx.dsn, an[0][0], agg_field_op(an[0][1], "body_content_type"), "body_content_type")[0]
        ctx.check(R, "router:passes-endpoint-content-type", ok, "RequestEndpointMetadata.body_content_type = selected endpoint's body_content_type: %s (callees %s)" % (ok, bs.callee_names()), (g, b))
    # TypedBody documents the content type it is given
    im = _impl_of(ds, "extractor::common::ExclusiveExtractor", "extractor::body::TypedBody<")
    md = _impl_fn(ds, im, "metadata") if im else None
    if md is None:
        ctx.lost(R, "TypedBody::metadata")
    else:
        nb = md.live_calls(r"ApiEndpointParameter::new_body$")
        ok = False
        for bb, t in nb:
            sl = md.slice(t["args"][0])
            ok = sl.params() == [1] and only_plumbing(sl)
        ret = md.slice({"l": 0, "p": []})
        ctx.check(R, "TypedBody:documents-given-content-type", len(nb) == 1 and ok and ret.has_call(r"new_body$"), "new_body(content_type, ..) with metadata()'s own argument: %s" % ok, md)
    nbf = ctx.need_fn(ds, R, r"^api_description::ApiEndpointParameter::new_body$")
    for b, i, st in nbf.aggregates(r"^api_description::ApiEndpointParameterMetadata$", "Body"):
        sl = nbf.slice(st["rv"]["ops"][0])
        ctx.check(R, "new_body:stores-content-type", sl.params() == [1] and not sl.callees, "ParameterMetadata::Body(content_type)", (nbf, b))
    # gen_openapi: request-body media type key = ct.mime_type()
    go = ctx.need_fn(ds, R, r"^api_description::ApiDescription::<Context>::gen_openapi$")
    rbs = [g for g in [go] + ds.descendants(go) if any(True for _ in g.aggregates(r"^openapiv3::RequestBody$"))]
    if len(rbs) != 1:
        ctx.lost(R, "the gen_openapi closure that builds openapiv3::RequestBody")
    else:
        g = rbs[0]
        # the media-type map that becomes RequestBody.content (other MediaType maps of the same function belong to the responses)
        content_locals = set()
        for b_, i_, st_ in g.aggregates(r"^openapiv3::RequestBody$"):
            cop = agg_field_op(st_, "content")
            content_locals |= g.slice(cop).locals() if cop else set()
        ins = [(bb, t) for bb, t in g.live_calls(r"IndexMap::<K, V, S>::insert$") if any(a[0] == "agg" and a[1] == "openapiv3::MediaType" for a in g.slice(t["args"][2]).atoms)
               and borrow_root(g, t["args"][0]) in content_locals]
        ok = False
        for bb, t in ins:
            ks = g.slice(t["args"][1], stop_at_calls=r"iter::Iterator::next$")
            e_ok, e_why, _ = _element_of(ds, g, t["args"][1], ("field", "parameters"))
            ok = ks.has_call(r"ApiEndpointBodyContentType::mime_type$") and ks.reads_field("metadata") and not lit_strs(ks) and e_ok and \
                only_plumbing(ks, [r"ApiEndpointBodyContentType::mime_type$", r"iter::Iterator::next$"] + TO_STRING)
        ctx.check(R, "gen_openapi:request-media-type-key", len(ins) == 1 and ok, "requestBody.content key = param.metadata's content type .mime_type(): %s" % ok, g)
    # inverse tables.  Both functions are small and do nothing but compare strings for equality, branch and build values, so they are
    # decided by interpretation (absint) over every variant, every string either of them mentions and one string equal to none of
    # those: a match on constants, an if-chain, early returns, or from_mime_type defined *through* mime_type (`find` over a list of the
    # variants) are the same function.  Only when a function leaves that fragment is the table read off its path facts instead.
    a = ds.adts.get(CT_ADT)
    variants = [v["name"] for v in a["variants"]] if a else []
    mt = ctx.need_fn(ds, R, r"^api_description::ApiEndpointBodyContentType::mime_type$")
    fm = ctx.need_fn(ds, R, r"^api_description::ApiEndpointBodyContentType::from_mime_type$")
    try:
        dec = decide_string_tables(ds, mt, fm, CT_ADT)
        how = "interpreted"
        to_str = {v: {x} for v, x in dec["to"].items()}
        from_str = {x: set(o for o in outs if o != "refused") for x, outs in dec["from"].items() if x != OTHER}
        odd = [] if dec["from"].get(OTHER) == {"refused"} else ["a string that no variant documents is accepted as %s" % sorted(dec["from"].get(OTHER) or [])]
        odd += ["%s gives %s" % (x, sorted(outs)) for x, outs in dec["from"].items() if len(outs) != 1]
        ctx.notes["C07.from_mime_type.aliases"] = {x: sorted(outs) for x, outs in dec["from"].items() if x != OTHER and x not in dec["to"].values() and outs != {"refused"}}
    except _A.LeavesFragment as e:
        how = "read off path facts (not interpretable: %s)" % e
        mt, fm, to_str, from_str, odd = _mime_tables(ctx, R)
    ctx.notes["C07.mime_tables_decided_by"] = how
    ctx.notes["C07.mime_type"] = {k: sorted(v) for k, v in to_str.items()}
    ctx.notes["C07.from_mime_type"] = {k: sorted(v or []) for k, v in from_str.items()}
    ctx.check(R, "mime-table:total", bool(variants) and sorted(to_str) == sorted(variants) and not odd,
              "mime_type() is defined for %s (variants %s); from_mime_type refuses every other string: %s [%s]" % (sorted(to_str), variants, not odd or odd, how), mt)
    for v in variants:
        s = to_str.get(v) or set()
        back = set()
        for x in s:
            back |= from_str.get(x) or set()
        ctx.check(R, "mime-table:%s" % v, len(s) == 1 and back == {v}, "%s.mime_type() = %s; from_mime_type of that = %s [%s]" % (v, sorted(s), sorted(back), how), fm)
    # runtime choice of deserialiser
    lb = ctx.need_fn(ds, R, r"^extractor::body::http_request_load_body$")
    body = ds.body_of(lb)
    CT = "api_description::ApiEndpointBodyContentType"
    # every switch on a content-type value is classified by the *role* of the value it tests: the endpoint's expected content type
    # (rqctx.endpoint.body_content_type) or the requested one (from_mime_type of the request header) — whether they are matched as
    # a tuple, in nested matches or one after the other
    roles = {"expected": [], "requested": []}
    for sbb in _discr_switches(body, CT):
        info = body.switch_on(sbb)
        vs = body.slice(info["place"])
        is_exp = vs.reads_field("body_content_type") and vs.reads_field("endpoint") and only_plumbing(vs) and not vs.has_call(r"from_mime_type$")
        is_req = vs.has_call(r"from_mime_type$") and vs.has_call(r"HeaderMap::<T>::get$") and not vs.reads_field("body_content_type")
        if is_exp:
            roles["expected"].append((sbb, info))
        elif is_req:
            roles["requested"].append((sbb, info))
    ctx.check(R, "load_body:compares-expected-with-requested", bool(roles["expected"]) and bool(roles["requested"]),
              "the body loader branches on rqctx.endpoint.body_content_type (%d switch(es)) and on from_mime_type(request header) (%d switch(es))" % (
                  len(roles["expected"]), len(roles["requested"])), body)
    # the guard is read off the path facts: on EVERY path that reaches the deserialiser some match on the expected value took the
    # wanted variant's edge and some match on the requested value did too — as a tuple pattern, nested matches, `A if matches!(y, A)`
    # guards (whose outcome travels through a bool), or early returns
    desers = ((r"^serde_json::Deserializer::<.*>::from_(slice|str)$|^serde_json::from_(slice|str)$", "Json"),
              (r"^serde_urlencoded::Deserializer::<'de>::new$|^serde_urlencoded::from_(bytes|str)$", "UrlEncoded"))
    all_sites = [bb for pat, want in desers for bb, t in body.live_calls(pat)]
    watch = [sbb for sws in roles.values() for sbb, info in sws]
    states = path_states(body, [(0, {}, {})], all_sites, watch=watch) if all_sites else {}
    for pat, want in desers:
        sites = body.live_calls(pat)
        if not sites:
            ctx.lost(R, "%s deserialiser in http_request_load_body" % want)
            continue
        for bb, t in sites:
            sts = states.get(bb) if states is not None else None
            seen = {"expected": set(), "requested": set()}
            ok = bool(sts)
            for env, fs in sts or []:
                for role, sws in roles.items():
                    got = [fs[sbb] for sbb, info in sws if sbb in fs]
                    seen[role] |= set(tuple(sorted(g)) for g in got) or {("unconstrained",)}
                    ok = ok and any(g == frozenset([want]) for g in got)
            ctx.check(R, "load_body:%s-deserialiser-guard" % want, ok,
                      "on every path to the deserialiser the expected content type was matched as %s and the requested one as %s (want %s/%s)%s" % (
                          sorted("|".join(x) for x in seen["expected"]), sorted("|".join(x) for x in seen["requested"]), want, want,
                          "" if states is not None else " [path exploration exceeded its budget]"), (body, bb))


# ----------------------------------------------------------------------------- R4
def r4_response(ctx):
    R = ctx.rule("C07.R4", "response_metadata and for_object use the same STATUS_CODE constant and the same Body type; every From<X> for HttpHandlerResult converts with X's own "
                 "for_object; the document's status key is endpoint.response.success; the document's JSON media-type key is the constant the JSON serialiser sends", floor=18)
    ds = ctx.ds
    rm = ctx.need_fn(ds, R, r"^<T as handler::HttpResponse>::response_metadata$")
    fo = ctx.need_fn(ds, R, r"^handler::HttpCodedResponse::for_object$")
    # the returned ApiEndpointResponse, however it is put together (struct literal, let-bound literal, field assignments on a default value)
    RESP = r"^api_description::ApiEndpointResponse$"
    succ_ops, succ_complete = field_sources(rm, 0, "success", RESP)
    schema_ops, schema_complete = field_sources(rm, 0, "schema", RESP)
    if not succ_ops or not schema_ops:
        ctx.lost(R, "the `success` / `schema` fields of the ApiEndpointResponse returned by response_metadata")
        return
    b = 0
    doc_status = succ_complete
    for o in succ_ops:
        ss = rm.slice(o)
        doc_status = doc_status and ss.has_const_path(STATUS_PATH) and not ss.callees and any(a[0] == "agg" and a[2] == "Some" for a in ss.atoms)
    run = fo.live_calls(r"http::response::Builder::status$")
    run_status = len(run) == 1 and bool(re.search(STATUS_PATH, op_const_path(fo, run[0][1]["args"][1]) or ""))
    ctx.check(R, "status:same-constant", doc_status and run_status, "document: success = Some(T::STATUS_CODE)=%s; runtime: for_object status(Self::STATUS_CODE)=%s" % (doc_status, run_status), (rm, b))
    cs = rm.slice(schema_ops[0])
    cm = cs.calls(r"handler::HttpResponseContent::content_metadata$")
    same_everywhere = schema_complete and all([bb_ for c_, bb_, t_ in rm.slice(o).calls(r"content_metadata$")] == [bb_ for c_, bb_, t_ in cm] and only_plumbing(rm.slice(o), [r"content_metadata$"]) for o in schema_ops)
    tr = [(bb, t) for bb, t in fo.live_calls() if (t.get("callee") or "").endswith("handler::HttpResponseContent::to_response")]

    def body_proj(t):
        g = " ".join(t.get("gargs") or [])
        m = re.search(r"args: \[(\w+)/#\d+\], kind: Projection \{ def_id: DefId\([^)]*::handler::HttpCodedResponse::Body\)", g)
        return m.group(1) if m else None
    dproj = body_proj(cm[0][2]) if len(cm) == 1 else None
    rproj = body_proj(tr[0][1]) if len(tr) == 1 else None
    ctx.check(R, "schema:same-body-type", dproj == "T" and rproj == "Self" and only_plumbing(cs, [r"content_metadata$"]) and same_everywhere,
              "document: schema = <%s::Body>::content_metadata(); runtime: <%s::Body>::to_response()" % (dproj, rproj), (rm, b))
    # blanket JSON impl: schema generated for the serialised type itself
    jc = ctx.need_fn(ds, R, r"^<T as handler::HttpResponseContent>::content_metadata$")
    items = set(o.get("fn_args") for o in _fnitems(jc))
    ctx.check(R, "json:schema-of-Self", items == {"schema_util::make_subschema_for::<T>", "<T as schemars::JsonSchema>::schema_name"},
              "content_metadata of the JSON impl generates the schema of the type it serialises: %s" % sorted(items), jc)
    ec = ctx.need_fn(ds, R, r"^<handler::Empty as handler::HttpResponseContent>::content_metadata$")
    es = ec.slice({"l": 0, "p": []})
    ctx.check(R, "empty:schema-is-false", any(a[0] == "agg" and a[1] == "schemars::schema::Schema" and a[2] == "Bool" for a in es.atoms) and
              any(a[0] == "lit" and '"int": 0' in a[1] and a[2] == "bool" for a in es.atoms),
              "Empty documents the schema `false` (no content)", ec)
    # From impls use their own type
    froms = from_impls(ds)
    for im in coded_impls(ds):
        x = im["self"]
        f = froms.get(x)
        cs_ = [(bb, t) for bb, t in f.live_calls() if (t.get("callee") or "").endswith("handler::HttpCodedResponse::for_object")] if f else []
        own = len(cs_) == 1 and _self_ty(cs_[0][1]) == x
        ctx.check(R, "from-impl:%s" % x, own, "From<%s> converts with <%s>::for_object" % (x, _self_ty(cs_[0][1]) if cs_ else None), f)
    # HttpResponseHeaders delegates both sides to T
    hm = ctx.need_fn(ds, R, r"^<handler::HttpResponseHeaders<T, H> as handler::HttpResponse>::response_metadata$")
    hr = ctx.need_fn(ds, R, r"^<handler::HttpResponseHeaders<T, H> as handler::HttpResponse>::to_result$")
    dm = [t for bb, t in hm.live_calls(r"handler::HttpResponse::response_metadata$")]
    rs = hm.slice({"l": 0, "p": []})
    into = [t for bb, t in hr.live_calls(r"convert::Into::into$")]
    ctx.check(R, "headers:delegates-to-T", len(dm) == 1 and self_of_call(dm[0]) == "T" and rs.has_call(r"HttpResponse::response_metadata$") and
              len(into) == 1 and norm_ty((into[0].get("gargs") or [""])[0]) == "T",
              "response_metadata starts from T::response_metadata(); to_result converts body: T", hm)
    gs = [t for bb, t in hm.live_calls(r"SchemaGenerator::root_schema_for$")]
    sn = [t for bb, t in hm.live_calls(r"schemars::JsonSchema::schema_name$")]
    tm = [t for bb, t in hr.live_calls(r"^to_map::to_map$")]
    ctx.check(R, "headers:declared-struct-documented", len(gs) == 1 and _last_garg(gs[0]) == "H" and len(tm) == 1 and _last_garg(tm[0]) == "H",
              "header schema generated for %s; headers serialised from %s" % (_last_garg(gs[0]) if gs else None, _last_garg(tm[0]) if tm else None), hm)
    # document status key
    go = ctx.need_fn(ds, R, r"^api_description::ApiDescription::<Context>::gen_openapi$")
    codes = [(bb, st_) for bb, i, st_ in go.aggregates(r"^openapiv3::StatusCode$", "Code") if bb in go.reachable(0)]
    okc, why = False, ""
    for bb, st_ in codes:
        # the key is computed from the `response.success` of the endpoint being documented, an element of router.endpoints(..)
        # (whether the loop filters the iterator first or skips inside the body does not matter)
        sl = go.slice(st_["rv"]["ops"][0], stop_at_calls=r"iter::Iterator::next$")
        e_ok, why, _ = _element_of(ds, go, st_["rv"]["ops"][0], ("call", r"HttpRouter::<Context>::endpoints$"))
        okc = sl.reads_field("success") and sl.reads_field("response") and only_plumbing(sl, [r"http::StatusCode::as_u16$", r"iter::Iterator::next$"]) and e_ok
    ctx.check(R, "gen_openapi:status-key", len(codes) == 1 and okc, "responses key = StatusCode::Code(endpoint.response.success.as_u16()): %s (%s)" % (okc, why), go)
    # media type keys
    kinds = {}
    for g in [go] + ds.descendants(go):
        for bb, t in g.live_calls(r"IndexMap::<K, V, S>::insert$"):
            vs = g.slice(t["args"][2])
            if not any(a[0] == "agg" and a[1] == "openapiv3::MediaType" for a in vs.atoms):
                continue
            ks = g.slice(t["args"][1])
            if ks.has_call(r"ApiEndpointBodyContentType::mime_type$"):
                k = "request:mime_type()"
            elif ks.has_const_path("^" + re.escape(MEDIA_JSON) + "$"):
                k = "const:" + MEDIA_JSON
            else:
                k = "lit:" + ",".join(sorted(lit_strs(ks)))
            # role of the map written to: it becomes the content of the Response stored in a shared error response (the carrier struct),
            # or of a Response of the operation itself — wherever the insertion sits (closure, gen_openapi proper, an inlined constructor)
            m = borrow_root(g, t["args"][0])
            role = "operation"
            for b_, i_, st_ in g.aggregates(ERROR_RESPONSE_ADT):
                rop_ = agg_field_op(st_, "response") if ERROR_RESPONSE_FIELDS == set(st_["rv"].get("fields") or []) else None
                if rop_ is not None and m is not None and m in g.slice(rop_).locals():
                    role = "shared-error"
            kinds.setdefault(k, []).append((g, bb, role))
    ctx.notes["C07.media_type_keys"] = {k: len(v) for k, v in kinds.items()}
    ctx.check(R, "gen_openapi:media-type-census", sorted((k, len(v)) for k, v in kinds.items()) ==
              [("const:" + MEDIA_JSON, 2), ("lit:*/*", 1), ("request:mime_type()", 1)],
              "MediaType insert keys: %s (want: typed response + error response keyed by CONTENT_TYPE_JSON, free-form response by */*, request body by mime_type())" % {k: len(v) for k, v in kinds.items()}, go)
    json_roles = sorted(role for g, bb, role in kinds.get("const:" + MEDIA_JSON, []))
    ctx.check(R, "gen_openapi:typed-response-key-is-json-const", json_roles == ["operation", "shared-error"] and
              all(role == "operation" for k, v in kinds.items() if k != "const:" + MEDIA_JSON for g, bb, role in v),
              "content maps keyed by %s: %s (want one for the operation's typed response and one for the shared error response)" % (MEDIA_JSON, json_roles), go)
    jt = ctx.need_fn(ds, R, r"^<T as handler::HttpResponseContent>::to_response$")
    sent = set()
    # wherever the header is set: in to_response itself or in a closure of it (`serialise(..).and_then(|bytes| builder.header(..)..)`)
    for g in [jt] + ds.descendants(jt):
        for bb, t in g.live_calls(r"http::response::Builder::header$"):
            if op_const_path(g, t["args"][1]) == "http::header::CONTENT_TYPE":
                sent.add(op_const_path(g, t["args"][2]))
    ctx.check(R, "json:sent-content-type-is-documented-constant", sent == {MEDIA_JSON} and const_val(ds, MEDIA_JSON) == "application/json",
              "JSON to_response sends CONTENT_TYPE = %s; document key constant %s = %r" % (sorted(x or "?" for x in sent), MEDIA_JSON, const_val(ds, MEDIA_JSON)), jt)


# ----------------------------------------------------------------------------- R5
def _always_serialised(g):
    """Keys that a (derived) Serialize impl writes with serialize_field on every path that reaches SerializeStruct::end --
    a field under `skip_serializing_if` is written on some paths only.  None if the impl has no single `end` call."""
    ends = [bb for bb, t in g.live_calls(r"SerializeStruct::end$")]
    if len(ends) != 1:
        return None
    out = set()
    by_key = {}
    for bb, t in g.live_calls(r"SerializeStruct::serialize_field$"):
        v = t["args"][1].get("val") or {}
        if "str" in v:
            by_key.setdefault(v["str"], []).append(bb)
    for k, bbs in by_key.items():
        if g.must_pass(bbs, exits=ends):
            out.add(k)
    return out


def r13_owned_wire_types_match_their_schema(ctx):
    """Added after adversary change C07-I (`skip_serializing_if = "Vec::is_empty"` on ResultsPage.items: an empty page was sent as `{}`
    while the document, generated from the separate ResultsPageSchema, still requires `items`).  ResultsPage is serialised by one type
    and documented by another; the two must agree."""
    R = ctx.rule("C07.R13", "ResultsPage<T> is documented by ResultsPageSchema<T> and serialised by its own Serialize impl: the schema's properties are the "
                 "serialised keys, with the types of the same-named fields, and every property the schema requires is written on every path", floor=5)
    ds = ctx.ds
    WIRE, SCHEMA = "pagination::ResultsPage", "pagination::ResultsPageSchema"
    js = ctx.need_fn(ds, R, r"^<pagination::ResultsPage<ItemType> as schemars::JsonSchema>::json_schema$")
    ret = js.slice({"l": 0, "p": []})
    crate_calls = sorted(set(c for c, _, _ in ret.callees if not any(re.search(p, c) for p in PLUMBING)))
    target = [t for c, bb, t in ret.callees if re.search(r"JsonSchema>?::json_schema$", c)]
    deleg = len(target) == 1 and re.match(r"^pagination::ResultsPageSchema<", (target[0].get("gargs") or [""])[0] or "") is not None and len(crate_calls) == 1
    ctx.check(R, "documented-by-the-schema-twin", deleg, "ResultsPage::json_schema returns %s" % ([(c, (t.get("gargs") or [""])[0]) for c, bb, t in ret.callees] or "no call"), js)
    sj = ctx.need_fn(ds, R, r"impl schemars::JsonSchema for pagination::ResultsPageSchema<ItemType>>::json_schema$")
    props, required = {}, set()
    for bb, t in sj.live_calls(r"^schemars::_private::insert_object_property$"):
        if len(t["args"]) != 5:
            continue
        key = lit_strs(sj.slice(t["args"][1]))
        has_default, req = const_bool_operand(sj, t["args"][2]), const_bool_operand(sj, t["args"][3])
        ty = (t.get("gargs") or [None])[0]
        if len(key) != 1 or has_default is None or req is None or not ty:
            ctx.lost(R, "a property of the derived ResultsPageSchema schema (key %s, has_default %s, required %s, type %s)" % (sorted(key), has_default, req, ty))
            return
        k = sorted(key)[0]
        props[k] = ty
        # schemars: a property is required unless it has a default or its type is an Option (`required` forces it)
        if not has_default and (req or not ty.startswith("std::option::Option<")):
            required.add(k)
    wa, sa = ds.adts.get(WIRE), ds.adts.get(SCHEMA)
    if not wa or not sa or not props:
        ctx.lost(R, "the ADTs %s / %s or the properties of the derived schema" % (WIRE, SCHEMA))
        return
    wf = {x["name"]: x["ty"] for x in wa["variants"][0]["fields"]}
    ctx.check(R, "schema-twin-has-the-wire-fields", props == wf, "documented properties %s; fields of ResultsPage %s" % (dict(sorted(props.items())), dict(sorted(wf.items()))), sj)
    sers = ds.fns(r"Serialize for pagination::ResultsPage<ItemType>>::serialize$")
    if len(sers) != 1:
        ctx.lost(R, "the Serialize impl of ResultsPage (%d)" % len(sers))
        return
    keys = set()
    for bb, t in sers[0].live_calls(r"SerializeStruct::(serialize_field|skip_field)$"):
        v = t["args"][1].get("val") or {}
        if "str" in v:
            keys.add(v["str"])
    ctx.check(R, "serialised-keys-are-the-documented-properties", keys == set(props), "keys written by Serialize: %s; documented properties: %s" % (sorted(keys), sorted(props)), sers[0])
    always = _always_serialised(sers[0])
    ctx.check(R, "required-properties-are-always-serialised", always is not None and required <= always and bool(required),
              "the document requires %s; written on every path to SerializeStruct::end: %s" % (sorted(required), sorted(always) if always is not None else "no single `end` call"), sers[0])
    for k in sorted(props):
        ctx.check(R, "serialised-value-is-the-field:%s" % k, any(sers[0].slice(t["args"][2]).reads_field(k) for bb, t in sers[0].live_calls(r"SerializeStruct::serialize_field$")
                                                                 if (t["args"][1].get("val") or {}).get("str") == k),
                  "serialize_field(%r, ..) writes self.%s" % (k, k), sers[0])


def r5_error_schema(ctx):
    R = ctx.rule("C07.R5", "the documented error schema is generated for the struct that HttpError::into_response serialises; its hand-written schema lists exactly the serialised "
                 "fields and requires exactly the non-Option ones; the error body is sent as application/json", floor=8)
    ds = ctx.ds
    BODY = "error::HttpErrorResponseBody"
    cm = ctx.need_fn(ds, R, r"^<error::HttpError as handler::HttpResponseContent>::content_metadata$")
    items = set(o.get("fn_args") for o in _fnitems(cm))
    ret = cm.slice({"l": 0, "p": []})
    ctx.check(R, "documented-type", items == {"schema_util::make_subschema_for::<%s>" % BODY, "<%s as schemars::JsonSchema>::schema_name" % BODY} and
              any(a[0] == "fnitem" and a[1] == "schema_util::make_subschema_for" for a in ret.atoms),
              "HttpError::content_metadata generates the schema of %s" % sorted(items), cm)
    ir = ctx.need_fn(ds, R, r"^error::HttpError::into_response$")
    bodies = ir.live_calls(r"http::response::Builder::body$")
    ok = False
    for bb, t in bodies:
        sl = ir.slice(t["args"][1])
        ser = sl.calls(r"^serde_json::to_(string|string_pretty|vec|vec_pretty)$")
        for c, sbb, stt in ser:
            a0 = ir.slice(stt["args"][0])
            adts = set(a[1] for a in a0.atoms if a[0] == "agg")
            ok = BODY in adts and adts <= {BODY, "std::option::Option"}
    ctx.check(R, "serialised-type", len(bodies) == 1 and ok, "into_response's body = serde_json(%s {..}): %s" % (BODY, ok), ir)
    sent = set()
    for bb, t in ir.live_calls(r"http::response::Builder::header$"):
        if op_const_path(ir, t["args"][1]) == "http::header::CONTENT_TYPE":
            sent.add(op_const_path(ir, t["args"][2]))
    ctx.check(R, "error-content-type", sent == {MEDIA_JSON}, "into_response sends CONTENT_TYPE = %s (document key: %s)" % (sorted(x or "?" for x in sent), MEDIA_JSON), ir)
    who = sorted(set(g.id for g in ds.F.values() for b, i, st in g.aggregates("^" + re.escape(BODY) + "$") if not re.search(r"Deserialize|_serde|Visitor", g.id)))
    ctx.check(R, "one-construction-site", who == [ir.id], "%s is built at %s" % (BODY, who), ir, nontrivial=False)
    # shape vs hand-written schema
    a = ds.adts.get(BODY)
    if not a:
        ctx.lost(R, "ADT " + BODY)
        return
    fields = {x["name"]: x["ty"] for x in a["variants"][0]["fields"]}
    sers = ds.fns(r"Serialize for error::HttpErrorResponseBody>::serialize$")
    keys = set()
    for g in sers:
        for bb, t in g.live_calls(r"SerializeStruct::(serialize_field|skip_field)$"):
            v = t["args"][1].get("val") or {}
            if "str" in v:
                keys.add(v["str"])
    ctx.check(R, "wire-names-are-field-names", len(sers) == 1 and keys == set(fields), "keys written by Serialize: %s; struct fields: %s" % (sorted(keys), sorted(fields)), sers[0] if sers else None)
    if len(sers) == 1:
        always = _always_serialised(sers[0])
        need = set(n for n, ty in fields.items() if not ty.startswith("std::option::Option<"))
        ctx.check(R, "required-fields-are-always-serialised", always is not None and need <= always,
                  "fields written on every path to SerializeStruct::end: %s; the schema requires %s" % (sorted(always) if always is not None else "no single `end` call", sorted(need)), sers[0])
    js = ctx.need_fn(ds, R, r"^<error::HttpErrorResponseBody as schemars::JsonSchema>::json_schema$")
    want_req = set(n for n, ty in fields.items() if not ty.startswith("std::option::Option<"))
    # the schema is read off the value json_schema returns, by interpretation: a struct literal over `[..].into_iter().collect()`, field
    # assignments / inserts on a default value, a loop over a constant (name, required) table are the same value.  Only when the function
    # leaves the interpretable fragment are the literals of the ObjectValidation literal used instead.
    try:
        dec = decide_object_schema(ds, js)
        how = "interpreted"
        req, props = dec["required"], dec["properties"]
        is_object = dec["instance_types"] == {"Object"}
        b = 0
    except _A.LeavesFragment as e:
        how = "literals of the ObjectValidation aggregate (not interpretable: %s)" % e
        ov = [(b, st) for b, i, st in js.aggregates(r"^schemars::schema::ObjectValidation$") if b in js.reachable(0)]
        if len(ov) != 1:
            ctx.lost(R, "ObjectValidation aggregate in the hand-written schema")
            return
        b, st = ov[0]
        req = lit_strs(js.slice(agg_field_op(st, "required")))
        props = lit_strs(js.slice(agg_field_op(st, "properties")))
        ret = js.slice({"l": 0, "p": []})
        is_object = any(a_[0] == "agg" and a_[1] == "schemars::schema::ObjectValidation" for a_ in ret.atoms) and \
            any(a_[0] == "agg" and a_[1] == "schemars::schema::InstanceType" and a_[2] == "Object" for a_ in ret.atoms)
    ctx.notes["C07.error_schema_decided_by"] = how
    ctx.check(R, "schema-properties", props == keys, "schema properties %s; serialised fields %s [%s]" % (sorted(props), sorted(keys), how), (js, b))
    ctx.check(R, "schema-required", req == want_req, "schema required %s; non-Option fields %s (these are always present in the body) [%s]" % (sorted(req), sorted(want_req), how), (js, b))
    ctx.check(R, "schema-is-an-object-with-that-validation", is_object, "json_schema returns a SchemaObject{instance_type: Object, object: that validation} [%s]" % how, js)


# ----------------------------------------------------------------------------- R6
SET_CONTAINS = r"BTreeSet::<T, A>::contains$|BTreeSet.*::contains$|IndexSet.*::contains$|HashSet.*::contains$"
# adaptors / conversions that hand the elements of a collection on unchanged
ELEMENT_PRESERVING = ITER_PLUMBING + [r"iter::Iterator::(filter|rev|skip_while|take_while|chain|inspect)$", r"(BTreeMap|IndexMap|HashMap)::<.*>::iter$",
                                      r"slice::<impl \[T\]>::iter$", r"vec::Vec::<T, A>::iter$", r"vec::Vec::<T, A>::into_iter$"]


def _element_of(ds, g, op, producer, allow=()):
    """Is the operand (a field of) an *element* of the collection produced by / read from `producer`?
    Works alike for `for x in coll {..}` (Iterator::next in the slice) and `coll.iter().map(|x| ..)` (the
    closure's item parameter).  Returns (ok, detail, [(ctx fn, iterator Origin)]).
    producer: ("call", regex) — the iterated collection is the result of that call;
              ("field", name) — the iterated collection is field `name` of some object."""
    srcs = direct_element_sources(ds, g, op)
    if not srcs:
        return False, "the value is not an element of an iterated collection", []
    its = []
    for h, it_op, how in srcs:
        # the collection may itself belong to an element of an outer iteration (endpoint.parameters inside the loop over endpoints):
        # the slice stops at the outer Iterator::next and at the producing call
        stop = r"iter::Iterator::next$" + ("|" + producer[1] if producer[0] == "call" else "")
        o = Origin(ds, h, it_op, stop_at_calls=stop)
        its.append((h, o))
        if producer[0] == "call":
            good = o.has_call(producer[1])
            extra = [producer[1]]
        else:
            good = o.reads_field(producer[1])
            extra = []
        bad = o.bad_callees(ELEMENT_PRESERVING + extra + list(allow))
        if not good or bad or o.unresolved:
            return False, "iterated collection (%s) does not derive from %s only: other callees %s" % (how, producer[1], sorted(set(bad))), its
    return True, "element of %s (%s)" % (producer[1], ", ".join(sorted(set(x[2] for x in srcs)))), its


def _copied_member_field(ds, h, op, field):
    """The operand is a plain copy of field `field` of a struct member: nothing but moves on the way from the
    element (slice stopped at Iterator::next so that the loop plumbing is not part of it)."""
    sl = h.slice(op, stop_at_calls=r"iter::Iterator::next$")
    bad = callee_allow(sl, PLUMBING + [r"iter::Iterator::next$"])
    computed = [a for a in sl.atoms if a[0] in ("lit", "unop", "binop", "const")]
    return sl.reads_field(field) and not bad and not computed


def r6_required(ctx):
    R = ctx.rule("C07.R6", "StructMember.required = caller's `required` AND object.required.contains(name), decided over all four truth assignments on every path to the "
                 "construction; recursion passes `required` or false; the flag reaches ParameterData.required and Header.required unmodified", floor=14)
    ds = ctx.ds
    imp = ctx.need_fn(ds, R, r"^schema_util::schema2struct_impl$")
    bools = params_of_type(imp, "bool")
    if len(bools) != 1:
        ctx.lost(R, "the single bool parameter (`required`) of schema2struct_impl (found %d)" % len(bools))
        return
    rparam = bools[0]
    sites = []
    for g in [imp] + ds.descendants(imp):
        for b, i, st in g.aggregates(r"^schema_util::StructMember$"):
            if b in g.reachable(0):
                sites.append((g, b, st))
    if len(sites) != 1:
        ctx.lost(R, "the single StructMember construction site")
        return
    g, b, st = sites[0]
    rop = agg_field_op(st, "required")
    nop = agg_field_op(st, "name")
    contains = g.live_calls(SET_CONTAINS)
    n_req, memo = [0], {}

    # atom R: a read of schema2struct_impl's bool parameter — directly, or (inside a closure) through the capture
    def is_req(kind, node):
        if kind != "assign" or node["rv"]["rv"] != "use":
            return False
        o = node["rv"]["op"]
        if o.get("k") not in ("copy", "move") or g.local_ty(node["pl"]["l"]) != "bool":
            return False
        if id(node) not in memo:
            memo[id(node)] = Origin(ds, g, o).is_plain_copy_of_param(imp, rparam)
            if memo[id(node)]:
                n_req[0] += 1
        return memo[id(node)]

    # atom C: the result of the set-membership call
    def is_contains(kind, node):
        return kind == "call" and any(node is t for bb, t in contains)
    try:
        names, table = eval_bool_paths(g, b, rop, {"C": is_contains, "R": is_req})
        want = {(c, r): (c and r) for c in (False, True) for r in (False, True)}
        ctx.check(R, "required-is-conjunction", table == want,
                  "StructMember.required as a function of (contains, caller's required): %s (want AND)" % {("C=%d,R=%d" % k): int(v) for k, v in sorted(table.items())}, (g, b))
    except ValueError as e:
        ctx.check(R, "required-is-conjunction", False, "could not evaluate the `required` expression exactly: %s" % e, (g, b))
    ctx.check(R, "caller-flag-is-the-parameter", n_req[0] > 0,
              "the flag combined with contains() is schema2struct_impl's own bool parameter (read directly or through the closure capture): %d read(s) on the evaluated paths" % n_req[0], g)
    # contains(receiver = X.required, key = k) where (k, _) is an element of X.properties and StructMember.name = k
    okc, why = False, "no contains() call"
    for bb, t in contains:
        rcv = Origin(ds, g, t["args"][0])
        rcv_ok = rcv.reads_field("required") and not rcv.bad_callees() and not rcv.unresolved
        k_ok, k_why, its = _element_of(ds, g, t["args"][1], ("field", "properties"))
        n_ok, n_why, nits = _element_of(ds, g, nop, ("field", "properties"))
        # the same object: `.required` and `.properties` are projected from the same place
        same_obj = any(rcv.field_bases("required") & o.field_bases("properties") for h, o in its)
        # the same element: key and name come from the same item (same Iterator::next call / same closure parameter)
        ks = g.slice(t["args"][1], stop_at_calls=r"iter::Iterator::next$")
        ns = g.slice(nop, stop_at_calls=r"iter::Iterator::next$")
        same_elem = (sorted(bb2 for c, bb2, _ in ks.calls(r"iter::Iterator::next$")) == sorted(bb2 for c, bb2, _ in ns.calls(r"iter::Iterator::next$"))) and \
            ks.param_fields() == ns.param_fields() and not callee_allow(ks, PLUMBING + [r"iter::Iterator::next$"]) and not callee_allow(ns, PLUMBING + [r"iter::Iterator::next$"])
        okc = rcv_ok and k_ok and n_ok and same_obj and same_elem
        why = "receiver reads .required=%s; key %s; name %s; same object=%s; key and name are the same element=%s" % (rcv_ok, k_why, n_why, same_obj, same_elem)
    ctx.check(R, "contains-on-own-name-in-schema-required", len(contains) == 1 and okc,
              "contains(): receiver is the `required` set of the object whose properties are being listed, key is the member's own name: %s" % why, (g, b))
    # recursion: a call on one of several alternatives (its schema argument is an element of a list / it sits in a loop) must pass false;
    # a call on the single wrapped schema passes the caller's flag or false
    nrec = {"alternatives": 0, "single": 0}
    for h in [imp] + ds.descendants(imp):
        loops = h.loop_blocks()
        for bb, t in h.live_calls(r"^schema_util::schema2struct_impl$"):
            a = t["args"][2]
            many = bb in loops or bool(element_sources(ds, h, t["args"][0]))
            role = "alternatives" if many else "single"
            nrec[role] += 1
            cv = const_bool_operand(h, a)
            if cv is not None:
                ok = cv is False
                d = "constant %s" % ("true" if cv else "false")
            else:
                o = Origin(ds, h, a)
                ok = (not many) and o.is_plain_copy_of_param(imp, rparam)
                d = "derives from parameters %s%s" % (o.params_of(imp), (" via " + ",".join(o.callee_names() + o.computed())) if (o.callees() or o.computed()) else "")
            ctx.check(R, "recursion:%s:%d" % (role, nrec[role]), ok,
                      "recursive call (%s) passes `required` = %s (want: %s)" % (role, d, "false" if many else "the caller's flag or false"), (h, bb))
    s2 = ctx.need_fn(ds, R, r"^schema_util::schema2struct$")
    s2b = params_of_type(s2, "bool")
    n = 0
    for h in [s2] + ds.descendants(s2):
        for bb, t in h.live_calls(r"^schema_util::schema2struct_impl$"):
            n += 1
            o = Origin(ds, h, t["args"][2])
            ctx.check(R, "schema2struct-forwards-required", len(s2b) == 1 and o.is_plain_copy_of_param(s2, s2b[0]), "schema2struct passes its own `required`", (h, bb))
    if not n:
        ctx.lost(R, "schema2struct_impl call in schema2struct")
    # consumers
    gm = ctx.need_fn(ds, R, r"^extractor::metadata::get_metadata$")
    hm = ctx.need_fn(ds, R, r"^<handler::HttpResponseHeaders<T, H> as handler::HttpResponse>::response_metadata$")
    for f, label in ((gm, "get_metadata"), (hm, "headers")):
        cs = [(h, bb, t) for h in [f] + ds.descendants(f) for bb, t in h.live_calls(r"^schema_util::schema2struct$")]
        okt = len(cs) == 1 and const_bool_operand(cs[0][0], cs[0][2]["args"][4]) is True
        ctx.check(R, "%s:top-level-required-true" % label, okt, "schema2struct(.., required = true) at the top level: %s" % okt, f)
    nn_sites = [(h, bb, t) for h in [gm] + ds.descendants(gm) for bb, t in h.live_calls(r"ApiEndpointParameter::new_named$")]
    for h, bb, t in nn_sites:
        copied = _copied_member_field(ds, h, t["args"][3], "required")
        e_ok, e_why, _ = _element_of(ds, h, t["args"][3], ("call", r"^schema_util::schema2struct$"))
        n_ok, n_why, _ = _element_of(ds, h, t["args"][1], ("call", r"^schema_util::schema2struct$"))
        rs = h.slice(t["args"][3], stop_at_calls=r"iter::Iterator::next$")
        ns = h.slice(t["args"][1], stop_at_calls=r"iter::Iterator::next$")
        same = sorted(b2 for c, b2, _ in rs.calls(r"iter::Iterator::next$")) == sorted(b2 for c, b2, _ in ns.calls(r"iter::Iterator::next$")) and rs.params() == ns.params()
        ctx.check(R, "get_metadata:required-forwarded", copied and e_ok and n_ok and same,
                  "new_named(.., member.name, .., member.required, ..): `required` is copied unmodified=%s from an %s; the name comes from the same member=%s" % (copied, e_why, n_ok and same), (h, bb))
    if not nn_sites:
        ctx.lost(R, "new_named call under get_metadata")
    nn = ctx.need_fn(ds, R, r"^api_description::ApiEndpointParameter::new_named$")
    nnb = params_of_type(nn, "bool")
    for b2, i, st2 in nn.aggregates(r"^api_description::ApiEndpointParameter$"):
        o = Origin(ds, nn, agg_field_op(st2, "required"))
        ctx.check(R, "new_named:stores-required", len(nnb) == 1 and o.is_plain_copy_of_param(nn, nnb[0]), "ApiEndpointParameter.required = the bool argument", (nn, b2))
    go = ctx.need_fn(ds, R, r"^api_description::ApiDescription::<Context>::gen_openapi$")
    n = 0
    for h in [go] + ds.descendants(go):
        for adt, coll in (("openapiv3::ParameterData", "parameters"), ("openapiv3::Header", "headers")):
            for b2, i, st2 in h.aggregates("^" + re.escape(adt) + "$"):
                n += 1
                rop2 = agg_field_op(st2, "required")
                copied = _copied_member_field(ds, h, rop2, "required")
                e_ok, e_why, _ = _element_of(ds, h, rop2, ("field", coll))
                ctx.check(R, "gen_openapi:%s.required" % adt.split("::")[-1], copied and e_ok,
                          "%s.required copies the flag (unmodified=%s) of an %s" % (adt, copied, e_why), (h, b2))
    if n < 2:
        ctx.lost(R, "ParameterData / Header aggregates in gen_openapi")
    n = 0
    for h in [hm] + ds.descendants(hm):
        for b2, i, st2 in h.aggregates(r"^api_description::ApiEndpointHeader$"):
            n += 1
            rop2 = agg_field_op(st2, "required")
            copied = _copied_member_field(ds, h, rop2, "required")
            e_ok, e_why, _ = _element_of(ds, h, rop2, ("call", r"^schema_util::schema2struct$"))
            ctx.check(R, "headers:required-forwarded", copied and e_ok, "ApiEndpointHeader.required = member.required (unmodified=%s) of an %s" % (copied, e_why), (h, b2))
    if not n:
        ctx.lost(R, "ApiEndpointHeader construction under HttpResponseHeaders::response_metadata")


def _fnitem_generics(ds, g):
    """For the synthetic closure the engine makes of a generic helper passed as a function value (`.map_err(helper::<E>)`): the generic
    arguments the helper was named with, read off the type of the function item in the generic arguments of the call that takes it
    (`FnDef(DefId(.. helper), [E])`).  The closure's body still speaks of the helper's own type parameters `Name/#i`; apply() rewrites a
    rendered type to the caller's.  None when g is not such a closure or the instantiation cannot be found (nothing is rewritten then).
    (Engine gap, see the report: _inline_unknown_helpers substitutes generics for inlined calls but not for function-value closures.)"""
    so = g.raw.get("synthetic_of")
    if not so:
        return None
    rx = re.compile(r"^FnDef\(DefId\([^)]*::%s\), \[(.*)\]\)$" % re.escape(so))
    found = []
    for h, st in closure_captures(ds, g):
        for bb, t in h.live_calls():
            if any(c is g for c, node in closure_args_of_call(h, t)):
                for ga in t.get("gargs") or []:
                    m = rx.match(ga)
                    if m:
                        found.append(_split_top_level(m.group(1)))
    return found[0] if len(found) == 1 else None


def _split_top_level(s):
    out, depth, cur = [], 0, ""
    for ch in s:
        if ch in "(<[{":
            depth += 1
        elif ch in ")>]}":
            depth -= 1
        if ch == "," and depth == 0:
            out.append(cur.strip())
            cur = ""
        else:
            cur += ch
    if cur.strip():
        out.append(cur.strip())
    return out


def _apply_generics(args, ty):
    if not args:
        return ty
    return re.sub(r"\b\w+/#(\d+)", lambda m: args[int(m.group(1))] if int(m.group(1)) < len(args) else m.group(0), ty)


def r7_framework_errors_use_endpoint_error_type(ctx):
    """Added after adversary change C07-B: the document describes an operation's 4xx/5xx with the
    endpoint's declared error type, so every framework-generated HttpError on the endpoint's
    handler path must be converted *through that type* before it becomes a HandlerError."""
    R = ctx.rule("C07.R7", "on the endpoint path (HttpRouteHandler::handle_request and the HttpHandlerFunc impls) every conversion into HandlerError starts from the endpoint's declared "
                 "error type (never directly from HttpError), and a failed response conversion goes through <ErrorType as From<HttpError>>::from first", floor=9)
    import re as _re
    roots = [f for f in ctx.ds.F.values() if _re.search(r"as handler::HttpHandlerFunc<.*>>::handle_request$|as handler::RouteHandler<Context>>::handle_request$", f.id)]
    if len(roots) < 5:
        ctx.lost(R, "HttpHandlerFunc / RouteHandler handle_request impls (%d found)" % len(roots))
        return
    generic_err = _re.compile(r"^ErrorType/#\d+$|HttpHandlerFunc::Error\)")
    for root in roots:
        fns = [root] + ctx.ds.descendants(root)
        n_conv = 0
        via_endpoint_type = False
        for g in fns:
            inst = _fnitem_generics(ctx.ds, g)
            for bb, t in g.live_calls(r"convert::From::from$|ops::FromResidual::from_residual$|convert::Into::into$"):
                ga = [_apply_generics(inst, x) for x in t.get("gargs", [])]
                if len(ga) < 2:
                    continue
                if (t.get("callee") or "").endswith("convert::Into::into"):
                    ga[0], ga[1] = ga[1], ga[0]      # <Source as Into<Target>>::into: same conversion as <Target as From<Source>>::from
                into_handler_error = ga[0] == "handler::HandlerError" or ga[0].endswith(", handler::HandlerError>")
                if into_handler_error:
                    n_conv += 1
                    src = ga[1]
                    m = _re.match(r"^std::result::Result<std::convert::Infallible, (.*)>$", src)
                    if m:
                        src = m.group(1)
                    ok = bool(generic_err.search(src)) or src == "handler::HandlerError"
                    ctx.check(R, "conversion-source:%s" % root.id.split(" as ")[-1].replace(">::handle_request", ""), ok,
                              "HandlerError built from `%s` (%s)" % (src, "the endpoint's error type" if ok else "NOT the endpoint's declared error type: the response body would not match the documented error schema of a custom error type"), (g, bb))
                if len(ga) >= 2 and generic_err.search(ga[0]) and ga[1] == "error::HttpError":
                    via_endpoint_type = True
        # a HandlerError written out as an enum literal bypasses the conversion (and with it the endpoint's error type) altogether
        direct = [(g, b) for g in fns for b, i, st in g.aggregates(r"^handler::HandlerError$") if b in g.reachable(0)]
        for g, b in direct:
            ctx.check(R, "conversion-source:%s" % root.id.split(" as ")[-1].replace(">::handle_request", ""), False,
                      "HandlerError built as an enum literal on the endpoint path instead of being converted from the endpoint's error type", (g, b))
        if "HttpHandlerFunc" in root.id:
            sl_ok = False
            for g in fns:
                for bb, t in g.live_calls(r"HttpResponse::to_result$"):
                    sl_ok = True
            ctx.check(R, "to_result-error-via-endpoint-type:%s" % root.id.split(" as ")[-1].replace(">::handle_request", ""), via_endpoint_type and sl_ok and n_conv >= 1,
                      "response.to_result() failure is converted with <ErrorType as From<HttpError>>::from before HandlerError::from: %s" % via_endpoint_type, root)


def r8_headers_wrapper_keeps_the_response(ctx):
    """The documented content type of a typed response is the one the JSON serialiser sets (R4); a headers wrapper must add to
    that response's header map, not replace it.  This is C12.R5 (declared and explicit headers are inserted into the
    map of the inner response, which is then returned), re-evaluated here because its violation is a C07 violation too
    (seed C07-C: HttpResponseHeaders::to_result replaced the header map and dropped Content-Type)."""
    from . import c12
    from .lib_c01 import Renamed
    c12.r5_header_order(Renamed(ctx, "C07.R8", "a headers wrapper keeps the inner response (status, body, Content-Type) and only adds headers to it"))


def r9_error_reference_names_the_stored_response(ctx):
    """Added after adversary change C07-E: the `$ref` handed to operations named the un-disambiguated error type, so the second of
    two error types with the same name was documented with the first one's schema."""
    from .lib_c01 import access_path, VALUE_PRESERVING
    R = ctx.rule("C07.R9", "an operation's 4XX/5XX reference names exactly the components.responses entry that holds its error type's schema: in every ErrorResponse built by "
                 "gen_openapi the name interpolated into `#/components/responses/{..}` is the value stored as the entry's name, and that name is the key the entry is published under", floor=3)
    ds = ctx.ds
    g = ctx.need_fn(ds, R, r"^api_description::ApiDescription::<Context>::gen_openapi$")
    # the carrier struct is anchored by its role (the struct of module api_description with fields name / reference / response whose values are
    # built under gen_openapi), not by where it is declared: function-local, or module-level with a constructor that is inlined here
    sites = [(f, bb, st) for f in [g] + ds.descendants(g) for bb, i, st in f.aggregates(ERROR_RESPONSE_ADT) if bb in f.reachable(0)
             and ERROR_RESPONSE_FIELDS == set(st["rv"].get("fields") or [])]
    ctx.check(R, "error-response-sites", len(sites) >= 1, "ErrorResponse values built under gen_openapi: %d" % len(sites), g, nontrivial=False)
    for f, bb, st in sites:
        name_p = access_path(f, agg_field_op(st, "name"), VALUE_PRESERVING)
        ref_sl = f.slice(agg_field_op(st, "reference"), stop_at_calls=r"fmt::rt::Argument::<'_>::new_display$")   # this format!'s own arguments only
        lits = lit_strs(ref_sl)
        prefix_ok = any("#/components/responses/" in x for x in lits)
        shown = []
        for c, cb, ct in ref_sl.calls(r"fmt::rt::Argument::<'_>::new_display$"):
            shown.append(access_path(f, ct["args"][0], VALUE_PRESERVING))
        same = len(shown) == 1 and shown[0].root == name_p.root and shown[0].path == name_p.path
        ctx.check(R, "reference-names-the-entry", prefix_ok and same,
                  "reference = format!(\"#/components/responses/{}\", %s); entry name = %r" % (", ".join(repr(x) for x in shown) or "?", name_p), (f, bb))
    # the entry is published under that name
    pubs = 0
    for bb, t in g.live_calls(r"indexmap::IndexMap::<K, V, S>::insert$"):
        if len(t["args"]) < 3:
            continue
        vs = g.slice(t["args"][2], stop_at_calls=r"iter::Iterator::next$")
        if not (vs.reads_field("response") and vs.calls(r"iter::Iterator::next$") and g.slice(t["args"][1], stop_at_calls=r"iter::Iterator::next$").reads_field("name")):
            continue    # not the publication of an ErrorResponse drawn from the collection
        kp = access_path(g, t["args"][1], VALUE_PRESERVING)
        vp = access_path(g, t["args"][2], VALUE_PRESERVING)
        pubs += 1
        ks, rs = g.slice(t["args"][1], stop_at_calls=r"iter::Iterator::next$"), vs
        same_item = ks.reads_field("name") and bool(set(b for _, b, _ in ks.calls(r"iter::Iterator::next$")) & set(b for _, b, _ in rs.calls(r"iter::Iterator::next$")))
        ctx.check(R, "entry-published-under-its-name", same_item, "components.responses.insert(%r, Item(%r)): key is the `name` of the same ErrorResponse: %s" % (kp, vp, same_item), (g, bb))
    ctx.check(R, "publication-site", pubs >= 1, "insertions of an ErrorResponse's response into a map: %d" % pubs, g, nontrivial=False)


def r10_documented_media_type_is_accepted(ctx):
    """`a request built from the document is accepted`: the documented media type is matched the way RFC 9110 defines media types
    (parameters cut, whitespace trimmed, case folded).  This is C09.R8, re-evaluated here (adversary change C07-G dropped the case
    folding: `Application/JSON` was refused)."""
    from . import c09
    from .lib_c01 import Renamed
    c09.r8_media_type_normalised(Renamed(ctx, "C07.R10", "the request's media type is compared with the documented one after RFC 9110 normalisation"))


def r11_schema_keywords_are_carried(ctx):
    """`the documented schema is the schema of the Rust type`: every keyword of the type's JSON schema reaches the OpenAPI schema in its own
    place.  This is C08.R1, re-evaluated here (adversary change C07-H swapped minLength and maxLength in j2oas_string)."""
    from . import c08
    from .lib_c01 import Renamed
    c08.r1_mapping(Renamed(ctx, "C07.R11", "each JSON-schema keyword of a documented type is published under the OpenAPI keyword of the same meaning"))


META_ADT = "extractor::common::ExtractorMetadata"
MODE_ADT = "api_description::ExtensionMode"


def _show_mode(v):
    return "%s%s" % (v[1], "(%s)" % ", ".join(re.sub(r"\d+$", "", str(x[1])[len("mode-payload:"):]) if x and x[0] == "opaque" else "?" for x in v[2]) if v[2] else "")


def r12_extension_mode_merge(ctx):
    """`the document tells the truth about requests` / `what is declared is what is documented`: the extension (pagination, websocket) an
    operation is documented with is the one its extractors declare, wherever the declaring extractor stands in the handler's argument list.
    Decided by interpreting each tuple's metadata() (rules/absint.py through lib_c07.MergeInterp) for EVERY assignment of a mode to every
    member, the members' own metadata() being stubs: the match arms, guards, helpers, folds over lists of function items that happen to
    implement the merge are not looked at, only what is returned.  (Adversary change C19-G: the merge, factored into a helper, ended in
    `(_, y) => y`, so (Paginated, None) became None and `x-dropshot-pagination` vanished when a paginated Query was not the last extractor.)"""
    R = ctx.rule("C07.R12", "for every tuple of extractors (two members or more) the extension mode of the tuple's metadata is the merge of the members' modes: None when "
                 "every member reports None; the one member's mode, whatever its position, when exactly one member reports a mode other than None; a panic, never a silent "
                 "pick, when two members report different modes (two equal modes may be returned as that mode or refused)", floor=11)
    ds = ctx.ds
    tup = [i for i in ds.impls if i["trait"].endswith("extractor::common::RequestExtractor") and norm_ty(i["self"]).startswith("(")]
    if not tup:
        ctx.lost(R, "impl RequestExtractor for tuples")
        return
    a = ds.adts.get(MODE_ADT)
    if not a or "None" not in [v["name"] for v in a["variants"]] or len(a["variants"]) < 2:
        ctx.lost(R, "%s with a `None` variant and at least one other" % MODE_ADT)
        return
    none = ("enum", "None", ())
    wide = 0
    for im in tup:
        x = norm_ty(im["self"])
        members = _split_top(x[1:-1])
        if len(members) < 2:
            continue            # `()` and `(X,)`: nothing to merge (R1 holds `(X,)` to returning X's metadata as it is)
        wide += 1
        md = _impl_fn(ds, im, "metadata")
        if md is None or len(set(members)) != len(members):
            ctx.lost(R, "metadata of impl RequestExtractor for %s (distinct member types)" % x)
            continue
        try:
            runs = decide_mode_merge(ds, md, members, MEMBER_MD, self_of_call, META_ADT, MODE_ADT)
        except _A.LeavesFragment as e:
            ctx.check(R, "merge:%s:decided" % x, False, "the extension mode returned by metadata() could not be decided by interpretation (%s); failing closed" % e, md)
            continue
        classes = {}
        for labels, vals, outs in runs:
            non = [m for m in members if vals[m] != none]
            if not non:
                cls, want, ok = "all-none", "None", outs == {("returns", none)}
            elif len(non) == 1:
                cls, want, ok = "only:%s" % non[0], "the mode of %s" % non[0], outs == {("returns", vals[non[0]])}
            elif len(set(vals[m] for m in non)) == 1:
                cls, want, ok = "equal-modes", "that mode or a panic", bool(outs) and outs <= {"panics", ("returns", vals[non[0]])}
            else:
                cls, want, ok = "different-modes", "a panic", outs == {"panics"}
            c = classes.setdefault(cls, {"n": 0, "bad": [], "want": want})
            c["n"] += 1
            if not ok:
                c["bad"].append("(%s) gives %s" % (", ".join("%s=%s" % (m, labels[m]) for m in members),
                                                  " / ".join(sorted(o if o == "panics" else _show_mode(o[1]) for o in outs)) or "nothing"))
        for cls in sorted(classes):
            c = classes[cls]
            ctx.check(R, "merge:%s:%s" % (x, cls), not c["bad"],
                      "%d assignment(s) of modes to the members interpreted, expected outcome %s: %s" % (
                          c["n"], c["want"], "all as expected" if not c["bad"] else "; ".join(c["bad"][:4]) + (" ..." if len(c["bad"]) > 4 else "")), md)
    if not wide:
        ctx.lost(R, "an impl RequestExtractor for a tuple of two or more extractors")


def r14_documented_parameters_are_decodable(ctx):
    """`a request built from the document is accepted`: a path or query parameter is published only if every alternative of its schema is a
    scalar the flat-string decoder can produce.  This is C02.R5b, re-evaluated here (adversary change C07-K: the oneOf arm of the scalar
    check went from all(..) to any(..), so `enum Selector { All, Named(String) }` was documented as a query parameter although its object
    alternative is refused however it is encoded)."""
    from . import c02
    from .lib_c01 import Renamed
    c02.r5b_scalar_check_is_total(Renamed(ctx, "C07.R14", "a parameter type is accepted (and so documented) only when the scalar check justified every alternative of its schema"))


RULES = [("C07.R14", r14_documented_parameters_are_decodable), ("C07.R13", r13_owned_wire_types_match_their_schema), ("C07.R12", r12_extension_mode_merge), ("C07.R10", r10_documented_media_type_is_accepted), ("C07.R11", r11_schema_keywords_are_carried), ("C07.R9", r9_error_reference_names_the_stored_response), ("C07.R8", r8_headers_wrapper_keeps_the_response), ("C07.R7", r7_framework_errors_use_endpoint_error_type), ("C07.R1", r1_type_parameter), ("C07.R2", r2_location), ("C07.R3", r3_content_type), ("C07.R4", r4_response),
         ("C07.R5", r5_error_schema), ("C07.R6", r6_required)]

A = "dropshot/src/api_description.rs"
H = "dropshot/src/handler.rs"
_FROM_MIME_MATCH = ("        match mime_type {\n            CONTENT_TYPE_OCTET_STREAM => Ok(Self::Bytes),\n            CONTENT_TYPE_JSON => Ok(Self::Json),\n            CONTENT_TYPE_URL_ENCODED => Ok(Self::UrlEncoded),\n"
                    "            CONTENT_TYPE_MULTIPART_FORM_DATA => Ok(Self::MultipartFormData),\n            _ => Err(mime_type.to_string()),\n        }")
_FROM_MIME_TABLE = ("        const BY_MIME_TYPE: [(&str, ApiEndpointBodyContentType); 4] = [\n            (CONTENT_TYPE_OCTET_STREAM, ApiEndpointBodyContentType::Bytes),\n"
                    "            (CONTENT_TYPE_JSON, ApiEndpointBodyContentType::%s),\n            (CONTENT_TYPE_URL_ENCODED, ApiEndpointBodyContentType::UrlEncoded),\n"
                    "            (CONTENT_TYPE_MULTIPART_FORM_DATA, ApiEndpointBodyContentType::MultipartFormData),\n        ];\n"
                    "        BY_MIME_TYPE\n            .iter()\n            .find_map(|(known, content_type)| (*known == mime_type).then(|| content_type.clone()))\n"
                    "            .ok_or_else(|| mime_type.to_string())")
_FROM_DELETED = "impl From<HttpResponseDeleted> for HttpHandlerResult {\n    fn from(_: HttpResponseDeleted) -> HttpHandlerResult {\n        HttpResponseDeleted::for_object(Empty)\n"
_FROM_DELETED_GENERIC = ("fn coded_without_body<R: HttpCodedResponse<Body = Empty>>() -> HttpHandlerResult {\n    R::for_object(Empty)\n}\n"
                         "impl From<HttpResponseDeleted> for HttpHandlerResult {\n    fn from(_: HttpResponseDeleted) -> HttpHandlerResult {\n        coded_without_body::<%s>()\n")
SELFTEST = [
    {"name": "path-documents-query-location", "kind": "mutant", "expect": ["C07.R2"],
     "edits": [("dropshot/src/extractor/path.rs", "get_metadata::<PathType>(&ApiEndpointParameterLocation::Path)", "get_metadata::<PathType>(&ApiEndpointParameterLocation::Query)")],
     "why": "path parameters are documented as query parameters"},
    {"name": "error-schema-request_id-optional", "kind": "mutant", "expect": ["C07.R5"],
     "edits": [("dropshot/src/error.rs", "required: [\"message\".into(), \"request_id\".into()]", "required: [\"message\".into()]")],
     "why": "documented error schema no longer matches the body that is always sent (request_id not required)"},
    {"name": "created-uses-ok-for_object", "kind": "mutant", "expect": ["C07.R4"],
     "edits": [(H, "        HttpResponseCreated::for_object(response.0)", "        HttpResponseOk::for_object(response.0)")],
     "why": "document says 201, server answers 200"},
    {"name": "json-octet-stream", "kind": "mutant", "expect": ["C07.R4"],
     "edits": [(H, ".header(http::header::CONTENT_TYPE, CONTENT_TYPE_JSON)", ".header(http::header::CONTENT_TYPE, CONTENT_TYPE_OCTET_STREAM)")],
     "why": "document lists application/json, server sends application/octet-stream"},
    {"name": "new_for_types-hardcodes-json", "kind": "mutant", "expect": ["C07.R3"],
     "edits": [(A, "            handler,\n            method,\n            path: path.to_string(),\n            parameters: func_parameters.parameters,\n            body_content_type,",
                "            handler,\n            method,\n            path: path.to_string(),\n            parameters: func_parameters.parameters,\n            body_content_type: ApiEndpointBodyContentType::Json,")],
     "why": "documented request content type and the one enforced at run time come from different values"},
    {"name": "required-ignores-caller-flag", "kind": "mutant", "expect": ["C07.R6"],
     "edits": [("dropshot/src/schema_util.rs", "required: required\n                                && object.required.contains(name),", "required: object.required.contains(name),")],
     "why": "members of optional / alternative sub-structures are documented as required"},
    {"name": "tuple-drops-exclusive-params", "kind": "mutant", "expect": ["C07.R1"],
     "edits": [("dropshot/src/extractor/common.rs", "                (_, x) => x,\n            };\n            parameters.append(&mut metadata.parameters);\n\n            ExtractorMetadata",
                "                (_, x) => x,\n            };\n\n            ExtractorMetadata")],
     "why": "the body parameter of (S.., X) handlers is extracted but not documented"},
    {"name": "urlencoded-arm-expects-json", "kind": "mutant", "expect": ["C07.R3"],
     "edits": [("dropshot/src/extractor/body.rs", "        (UrlEncoded, UrlEncoded) => {", "        (Json, UrlEncoded) => {")],
     "why": "an endpoint documented as url-encoded refuses url-encoded bodies"},
    {"name": "mime-table-json-as-octet", "kind": "mutant", "expect": ["C07.R3"],
     "edits": [(A, "            Self::Json => CONTENT_TYPE_JSON,", "            Self::Json => CONTENT_TYPE_OCTET_STREAM,")],
     "why": "JSON request bodies are documented under application/octet-stream"},
    {"name": "gen_openapi-path-as-query", "kind": "mutant", "expect": ["C07.R2"],
     "edits": [(A, "                            (name, ApiEndpointParameterLocation::Path)", "                            (name, ApiEndpointParameterLocation::Query)")],
     "why": "path parameters are emitted as query parameters"},
    {"name": "any_of-members-required", "kind": "mutant", "expect": ["C07.R6"],
     "edits": [("dropshot/src/schema_util.rs", "                                schema, generator, false,", "                                schema, generator, required,")],
     "why": "members of one enum alternative are documented as required although requests using another alternative are accepted"},
    {"name": "parameter-always-required", "kind": "mutant", "expect": ["C07.R6"],
     "edits": [(A, "                        required: param.required,", "                        required: true,")],
     "why": "optional parameters are documented as required"},
    {"name": "documented-status-literal", "kind": "mutant", "expect": ["C07.R4"],
     "edits": [(H, "            success: Some(T::STATUS_CODE),", "            success: Some(StatusCode::OK),")],
     "why": "every typed response is documented as 200 whatever it sends"},

    {"name": "rename-raw_query_string", "kind": "benign",
     "edits": [("dropshot/src/extractor/query.rs", "    let raw_query_string = request.uri().query().unwrap_or(\"\");", "    let qs = request.uri().query().unwrap_or(\"\");"),
               ("dropshot/src/extractor/query.rs", "serde_urlencoded::from_str(raw_query_string)", "serde_urlencoded::from_str(qs)")],
     "why": "behaviour-preserving: local renamed"},
    {"name": "required-commuted", "kind": "benign",
     "edits": [("dropshot/src/schema_util.rs", "required: required\n                                && object.required.contains(name),", "required: object.required.contains(name) && required,")],
     "why": "behaviour-preserving: conjunction commuted (contains has no effect)"},
    {"name": "required-if-else", "kind": "benign",
     "edits": [("dropshot/src/schema_util.rs", "required: required\n                                && object.required.contains(name),", "required: if !required { false } else { object.required.contains(name) },")],
     "why": "behaviour-preserving: && written as if/else with a negated test"},
    {"name": "new_named-if-let", "kind": "benign",
     "edits": [(A, "            metadata: match loc {\n                ApiEndpointParameterLocation::Path => {\n                    ApiEndpointParameterMetadata::Path(name)\n                }\n                ApiEndpointParameterLocation::Query => {\n                    ApiEndpointParameterMetadata::Query(name)\n                }\n            },",
                "            metadata: if let ApiEndpointParameterLocation::Path = loc {\n                ApiEndpointParameterMetadata::Path(name)\n            } else {\n                ApiEndpointParameterMetadata::Query(name)\n            },")],
     "why": "behaviour-preserving: two-arm match written as if-let/else"},
    {"name": "new-reordered-lets", "kind": "benign",
     "edits": [(A, "        let func_parameters = FuncParams::metadata(body_content_type.clone());\n        let response = ResponseType::response_metadata();",
                "        let response = ResponseType::response_metadata();\n        let func_parameters = FuncParams::metadata(body_content_type.clone());")],
     "why": "behaviour-preserving: independent statements reordered"},
    {"name": "error-schema-required-reordered", "kind": "benign",
     "edits": [("dropshot/src/error.rs", "required: [\"message\".into(), \"request_id\".into()]", "required: [\"request_id\".into(), \"message\".into()]")],
     "why": "behaviour-preserving: `required` is a set"},
    {"name": "path-location-named", "kind": "benign",
     "edits": [("dropshot/src/extractor/path.rs", "        get_metadata::<PathType>(&ApiEndpointParameterLocation::Path)", "        let loc = ApiEndpointParameterLocation::Path;\n        get_metadata::<PathType>(&loc)")],
     "why": "behaviour-preserving: temporary named"},
    {"name": "required-for-loop-named-flag", "kind": "benign",
     "edits": [("dropshot/src/schema_util.rs", "                results.extend(object.properties.iter().map(\n                    |(name, schema)| {\n                        let (description, schema) =\n                            schema_extract_description(schema);\n                        StructMember {\n                            name: name.clone(),\n                            description,\n                            schema,\n                            required: required\n                                && object.required.contains(name),\n                        }\n                    },\n                ));",
                "                for (prop_name, prop_schema) in object.properties.iter() {\n                    let (description, member_schema) =\n                        schema_extract_description(prop_schema);\n                    let listed = object.required.contains(prop_name);\n                    let member_required = if required { listed } else { false };\n                    results.push(StructMember {\n                        name: prop_name.clone(),\n                        description,\n                        schema: member_schema,\n                        required: member_required,\n                    });\n                }")],
     "why": "behaviour-preserving: extend(iter().map(closure)) written as a for loop pushing each member, the conjunction as a named flag plus if/else; the rule reads the flag as a function of (contains, the bool parameter) on every path and finds key/name as elements of object.properties either way"},
    {"name": "any_of-iterator-chain", "kind": "benign",
     "edits": [("dropshot/src/schema_util.rs", "                        for schema in schemas {\n                            results.extend(schema2struct_impl(\n                                schema, generator, false,\n                            )?);\n                        }",
                "                        let per_variant = schemas\n                            .iter()\n                            .map(|variant| schema2struct_impl(variant, generator, false))\n                            .collect::<Result<Vec<_>, _>>()?;\n                        results.extend(per_variant.into_iter().flatten());")],
     "why": "behaviour-preserving: loop over the alternatives written as an iterator chain; the recursive call is classified by its schema argument being an element of a list, not by sitting in a loop"},
    {"name": "any_of-iterator-chain-required", "kind": "mutant", "expect": ["C07.R6"],
     "edits": [("dropshot/src/schema_util.rs", "                        for schema in schemas {\n                            results.extend(schema2struct_impl(\n                                schema, generator, false,\n                            )?);\n                        }",
                "                        let per_variant = schemas\n                            .iter()\n                            .map(|variant| schema2struct_impl(variant, generator, required))\n                            .collect::<Result<Vec<_>, _>>()?;\n                        results.extend(per_variant.into_iter().flatten());")],
     "why": "same defect as any_of-members-required, written in the iterator-chain idiom"},
    {"name": "from_mime_type-if-chain", "kind": "benign",
     "edits": [(A, "        match mime_type {\n            CONTENT_TYPE_OCTET_STREAM => Ok(Self::Bytes),\n            CONTENT_TYPE_JSON => Ok(Self::Json),\n            CONTENT_TYPE_URL_ENCODED => Ok(Self::UrlEncoded),\n            CONTENT_TYPE_MULTIPART_FORM_DATA => Ok(Self::MultipartFormData),\n            _ => Err(mime_type.to_string()),\n        }",
                "        if mime_type == CONTENT_TYPE_JSON {\n            return Ok(Self::Json);\n        }\n        if mime_type == CONTENT_TYPE_OCTET_STREAM {\n            return Ok(Self::Bytes);\n        }\n        let parsed = if mime_type == CONTENT_TYPE_URL_ENCODED {\n            Self::UrlEncoded\n        } else if mime_type == CONTENT_TYPE_MULTIPART_FORM_DATA {\n            Self::MultipartFormData\n        } else {\n            return Err(mime_type.to_string());\n        };\n        Ok(parsed)")],
     "why": "behaviour-preserving: match on string constants written as early returns plus an if / else-if chain; the literal -> variant table is read off the path facts"},
    {"name": "gen_openapi-headers-for-loop", "kind": "benign",
     "edits": [(A, "                let headers = endpoint\n                    .response\n                    .headers\n                    .iter()\n                    .map(|header| {\n",
                "                let mut headers = indexmap::IndexMap::new();\n                for header in endpoint.response.headers.iter() {\n                    let (header_name, header_item) = {\n"),
               (A, "                    })\n                    .collect();\n\n                let response = openapiv3::Response {", "                    };\n                    headers.insert(header_name, header_item);\n                }\n\n                let response = openapiv3::Response {")],
     "why": "behaviour-preserving: iter().map(closure).collect() written as a for loop nested in the loop over endpoints; `required` is still a plain copy of the flag of an element of response.headers"},
    {"name": "response_metadata-field-assignments", "kind": "benign",
     "edits": [(H, "        ApiEndpointResponse {\n            schema: T::Body::content_metadata(),\n            success: Some(T::STATUS_CODE),\n            description: Some(T::DESCRIPTION.to_string()),\n            ..Default::default()\n        }",
                "        let mut documented = ApiEndpointResponse::default();\n        documented.schema = T::Body::content_metadata();\n        documented.success = Some(T::STATUS_CODE);\n        documented.description = Some(T::DESCRIPTION.to_string());\n        documented")],
     "why": "behaviour-preserving: struct literal with ..Default::default() written as field assignments on a default value"},
    {"name": "route-handler-literal-HandlerError", "kind": "mutant", "expect": ["C07.R7"],
     "edits": [(H, "        let funcparams = RequestExtractor::from_request(&rqctx, request)\n            .await\n            .map_err(<HandlerType::Error>::from)?;",
                "        let extracted = RequestExtractor::from_request(&rqctx, request).await;\n        let funcparams = match extracted {\n            Ok(funcparams) => funcparams,\n            Err(extract_error) => {\n                return Err(HandlerError::Dropshot(extract_error));\n            }\n        };")],
     "why": "extraction failures bypass the endpoint's declared error type: the 4xx body is dropshot's, not the documented custom error schema"},
    {"name": "route-handler-match-into", "kind": "benign",
     "edits": [(H, "        let funcparams = RequestExtractor::from_request(&rqctx, request)\n            .await\n            .map_err(<HandlerType::Error>::from)?;",
                "        let extracted = RequestExtractor::from_request(&rqctx, request).await;\n        let funcparams = match extracted {\n            Ok(funcparams) => funcparams,\n            Err(extract_error) => {\n                let endpoint_error = <HandlerType::Error>::from(extract_error);\n                return Err(endpoint_error.into());\n            }\n        };")],
     "why": "behaviour-preserving: map_err(From::from)? written as match / return Err(e.into())"},
    {"name": "gen_openapi-location-as-flag", "kind": "benign",
     "edits": [(A, "                            (name, ApiEndpointParameterLocation::Path)", "                            (name, false)"),
               (A, "                            (name, ApiEndpointParameterLocation::Query)", "                            (name, true)"),
               (A, "                    match location {\n                        ApiEndpointParameterLocation::Query => {", "                    match location {\n                        true => {"),
               (A, "                        ApiEndpointParameterLocation::Path => {\n                            Some(openapiv3::ReferenceOr::Item(", "                        false => {\n                            Some(openapiv3::ReferenceOr::Item(")],
     "why": "behaviour-preserving: the location carried from the first match to the second as a bool instead of an enum; the table is the set of Parameter variants built on paths through each arm, with the values decided in the arm selecting the later branch"},
    {"name": "gen_openapi-location-flag-inverted", "kind": "mutant", "expect": ["C07.R2"],
     "edits": [(A, "                            (name, ApiEndpointParameterLocation::Path)", "                            (name, true)"),
               (A, "                            (name, ApiEndpointParameterLocation::Query)", "                            (name, false)"),
               (A, "                    match location {\n                        ApiEndpointParameterLocation::Query => {", "                    match location {\n                        true => {"),
               (A, "                        ApiEndpointParameterLocation::Path => {\n                            Some(openapiv3::ReferenceOr::Item(", "                        false => {\n                            Some(openapiv3::ReferenceOr::Item(")],
     "why": "same defect as gen_openapi-path-as-query in the bool-flag idiom: path parameters are emitted as query parameters and vice versa"},
    {"name": "from_mime_type-find-over-variants", "kind": "benign",
     "edits": [(A, "        match mime_type {\n            CONTENT_TYPE_OCTET_STREAM => Ok(Self::Bytes),\n            CONTENT_TYPE_JSON => Ok(Self::Json),\n            CONTENT_TYPE_URL_ENCODED => Ok(Self::UrlEncoded),\n            CONTENT_TYPE_MULTIPART_FORM_DATA => Ok(Self::MultipartFormData),\n            _ => Err(mime_type.to_string()),\n        }",
                "        [Self::Bytes, Self::Json, Self::UrlEncoded, Self::MultipartFormData]\n            .into_iter()\n            .find(|candidate| candidate.mime_type() == mime_type)\n            .ok_or_else(|| mime_type.to_string())")],
     "why": "behaviour-preserving: from_mime_type defined through mime_type over a list of all variants; both functions are decided by interpretation, so the inverse property is established whichever way it is written"},
    {"name": "from_mime_type-find-misses-a-variant", "kind": "mutant", "expect": ["C07.R3"],
     "edits": [(A, "        match mime_type {\n            CONTENT_TYPE_OCTET_STREAM => Ok(Self::Bytes),\n            CONTENT_TYPE_JSON => Ok(Self::Json),\n            CONTENT_TYPE_URL_ENCODED => Ok(Self::UrlEncoded),\n            CONTENT_TYPE_MULTIPART_FORM_DATA => Ok(Self::MultipartFormData),\n            _ => Err(mime_type.to_string()),\n        }",
                "        [Self::Bytes, Self::Json, Self::MultipartFormData]\n            .into_iter()\n            .find(|candidate| candidate.mime_type() == mime_type)\n            .ok_or_else(|| mime_type.to_string())")],
     "why": "the list of candidates lacks UrlEncoded: an endpoint declared (and documented) as url-encoded cannot be registered / its requests are refused"},
    {"name": "load_body-requested-in-guard", "kind": "benign",
     "edits": [("dropshot/src/extractor/body.rs", "        (Json, Json) => {", "        (Json, requested) if matches!(requested, Json) => {"),
               ("dropshot/src/extractor/body.rs", "        (UrlEncoded, UrlEncoded) => {", "        (UrlEncoded, requested) if matches!(requested, UrlEncoded) => {")],
     "why": "behaviour-preserving: the requested content type tested in a `matches!` guard (its outcome travels through a bool) instead of the tuple pattern; the guard is read off the path facts"},
    {"name": "load_body-guard-requests-other-type", "kind": "mutant", "expect": ["C07.R3"],
     "edits": [("dropshot/src/extractor/body.rs", "        (Json, Json) => {", "        (Json, requested) if matches!(requested, UrlEncoded) => {")],
     "why": "same defect as urlencoded-arm-expects-json in the guard idiom: the JSON deserialiser runs on bodies announced as url-encoded and JSON bodies are refused by an endpoint documented as JSON"},
    # ---- round 3: idioms accepted after the deep refactorings, each with a mutant written in the same idiom
    {"name": "query-from_bytes", "kind": "benign",
     "edits": [("dropshot/src/extractor/query.rs", "    match serde_urlencoded::from_str(raw_query_string) {", "    match serde_urlencoded::from_bytes(raw_query_string.as_bytes()) {")],
     "why": "behaviour-preserving: serde_urlencoded::from_str(s) is from_bytes(s.as_bytes()); the deserialiser is anchored by its role and its input is still the URI's query string as it is"},
    {"name": "from_mime_type-const-table", "kind": "benign", "edits": [(A, _FROM_MIME_MATCH, _FROM_MIME_TABLE % "Json")],
     "why": "behaviour-preserving: the match on string constants written as find_map over a constant table of (media type, content type) pairs; a constant table is an array literal to the interpreter"},
    {"name": "from_mime_type-const-table-wrong-row", "kind": "mutant", "expect": ["C07.R3"], "edits": [(A, _FROM_MIME_MATCH, _FROM_MIME_TABLE % "UrlEncoded")],
     "why": "the table maps application/json to UrlEncoded: endpoints declared as JSON are documented and served as url-encoded"},
    {"name": "from-impl-through-generic-helper", "kind": "benign", "edits": [(H, _FROM_DELETED, _FROM_DELETED_GENERIC % "HttpResponseDeleted")],
     "why": "behaviour-preserving: the conversion goes through a generic helper instantiated at the response's own type (the engine inlines it and substitutes its type parameter)"},
    {"name": "from-impl-through-generic-helper-other-type", "kind": "mutant", "expect": ["C07.R4"], "edits": [(H, _FROM_DELETED, _FROM_DELETED_GENERIC % "HttpResponseFoundStatus")],
     "why": "the generic helper is instantiated at another response type: documented 204, served 302"},
    {"name": "tuple-fold-list-lacks-exclusive-member", "kind": "mutant", "expect": ["C07.R1"], "patch": "benign/C07-R9/patch.diff",
     "edits": [("dropshot/src/extractor/common.rs", "                <X as ExclusiveExtractor>::metadata,\n            ];", "            ];")],
     "why": "fold-over-member-functions idiom (benign-C07-R9): the list of members' metadata functions lacks the exclusive extractor, so the body parameter is extracted but not documented"},
    {"name": "tuple-fold-merge-drops-parameters", "kind": "mutant", "expect": ["C07.R1"], "patch": "benign/C07-R9/patch.diff",
     "edits": [("dropshot/src/extractor/common.rs", "        parameters.extend(next.parameters);\n", "")],
     "why": "fold-over-member-functions idiom: the merge step keeps the extension mode but drops every member's parameters"},
    {"name": "tuple-fold-skips-first-member", "kind": "mutant", "expect": ["C07.R1"], "patch": "benign/C07-R9/patch.diff",
     "edits": [("dropshot/src/extractor/common.rs", "members.iter().fold(", "members.iter().skip(1).fold(")],
     "why": "fold-over-member-functions idiom: the list is not iterated as a whole, the first shared extractor is not documented"},
    {"name": "error-schema-table-request_id-optional", "kind": "mutant", "expect": ["C07.R5"], "patch": "benign/C07-R11/patch.diff",
     "edits": [("dropshot/src/error.rs", "(\"request_id\", true)]", "(\"request_id\", false)]")],
     "why": "constant-table idiom (benign-C07-R11): same defect as error-schema-request_id-optional, decided by interpreting json_schema"},
    {"name": "error-schema-table-required-inverted", "kind": "mutant", "expect": ["C07.R5"], "patch": "benign/C07-R11/patch.diff",
     "edits": [("dropshot/src/error.rs", "            if is_required {", "            if !is_required {")],
     "why": "constant-table idiom: the loop lists exactly the optional property as required"},
    {"name": "load_body-negotiated-format-swapped", "kind": "mutant", "expect": ["C07.R3"], "patch": "benign/C09-R10/patch.diff",
     "edits": [("dropshot/src/extractor/body.rs", "            (Json, Json) => Some(TypedBodyFormat::Json),", "            (Json, Json) => Some(TypedBodyFormat::UrlEncoded),"),
               ("dropshot/src/extractor/body.rs", "            (UrlEncoded, UrlEncoded) => Some(TypedBodyFormat::UrlEncoded),", "            (UrlEncoded, UrlEncoded) => Some(TypedBodyFormat::Json),")],
     "why": "private-format-enum idiom (benign-C09-R10): the decision travels as the payload of an Option of a private enum; JSON endpoints run the url-encoded deserialiser and vice versa"},
    {"name": "query-from_raw_query-reads-path", "kind": "mutant", "expect": ["C07.R2"], "patch": "benign/C09-R12/patch.diff",
     "edits": [("dropshot/src/extractor/query.rs", "Query::from_raw_query(request.uri().query())", "Query::from_raw_query(Some(request.uri().path()))")],
     "why": "from_raw_query idiom (benign-C09-R12): parameters documented as query parameters are read from the path"},
    {"name": "handler_error_via-HttpError", "kind": "mutant", "expect": ["C07.R7"], "patch": "benign/C13-R10/patch.diff",
     "edits": [(H, "response.to_result().map_err(handler_error_via::<ErrorType>)", "response.to_result().map_err(handler_error_via::<HttpError>)")],
     "why": "named-generic-conversion idiom (benign-C13-R10): the helper is instantiated at HttpError, so a failed response conversion bypasses the endpoint's declared error type"},
    {"name": "error-response-ctor-renames-entry", "kind": "mutant", "expect": ["C07.R9"], "patch": "benign/C06-R9/patch.diff",
     "edits": [(A, "        ErrorResponse { name, reference, response }\n    }", "        ErrorResponse { name: format!(\"{name}Error\"), reference, response }\n    }")],
     "why": "module-level carrier with constructor (benign-C06-R9): the entry is published under another name than the one the operations' $ref interpolates"},
    {"name": "lookup_segments-default-content-type", "kind": "mutant", "expect": ["C07.R3"], "patch": "benign/C03-R12/patch.diff",
     "edits": [("dropshot/src/router.rs", "                    body_content_type: handler.body_content_type.clone(),", "                    body_content_type: Default::default(),")],
     "why": "split-lookup idiom (benign-C03-R12, the construction site sits in a closure of lookup_route): the request context is given a default content type instead of the documented one of the selected endpoint"},
    {"name": "load_body-inline-expected", "kind": "benign",
     "edits": [("dropshot/src/extractor/body.rs", "    let expected_content_type = rqctx.endpoint.body_content_type.clone();\n", ""),
               ("dropshot/src/extractor/body.rs", "    let content = match (expected_content_type, body_content_type) {", "    let content = match (rqctx.endpoint.body_content_type.clone(), body_content_type) {")],
     "why": "behaviour-preserving: local inlined"},
]

# ---------------------------------------------------------------- R12: the merge of the members' extension modes
_XC = "dropshot/src/extractor/common.rs"
_X_MERGE_HEAD = ("            let mut metadata = X::metadata(_body_content_type.clone());\n            extension_mode = match (extension_mode, metadata.extension_mode) {\n"
                 "                (ExtensionMode::None, x) | (x, ExtensionMode::None) => x,\n                (x, y) if x != y => {\n")
_X_MERGE = (_X_MERGE_HEAD + "                    panic!(\"incompatible extension modes in tuple: {:?} != {:?}\", x, y);\n                }\n                (_, x) => x,\n            };\n")
SELFTEST += [
    {"name": "merge-last-arm-returns-next", "kind": "mutant", "expect": ["C07.R12"],
     "edits": [(_XC, _X_MERGE_HEAD,
                "            let mut metadata = X::metadata(_body_content_type.clone());\n            extension_mode = match (extension_mode, metadata.extension_mode) {\n"
                "                (ExtensionMode::None, x) => x,\n                (x, y) if y != ExtensionMode::None && x != y => {\n")],
     "why": "the shape of seed C19-G written in place: `(x, None)` folded into the panic guard, so the last arm `(_, x) => x` turns (Paginated, None) into None — "
            "a paginated Query followed by another extractor is documented without x-dropshot-pagination"},
    {"name": "merge-conflict-resolved-silently", "kind": "mutant", "expect": ["C07.R12"],
     "edits": [(_XC, _X_MERGE_HEAD, _X_MERGE_HEAD.replace("(x, y) if x != y => {", "(x, y) if x != y && x == ExtensionMode::Websocket => {"))],
     "why": "two extractors declaring different extensions no longer refuse the declaration: the later one wins silently"},
    {"name": "merge-earlier-mode-forgotten-if-chain", "kind": "mutant", "expect": ["C07.R12"],
     "edits": [(_XC, _X_MERGE,
                "            let mut metadata = X::metadata(_body_content_type.clone());\n            let next = std::mem::take(&mut metadata.extension_mode);\n"
                "            extension_mode = if extension_mode == ExtensionMode::None || extension_mode == next {\n                next\n            } else if next != ExtensionMode::None {\n"
                "                panic!(\"incompatible extension modes in tuple: {:?} != {:?}\", extension_mode, next);\n            } else {\n                next\n            };\n")],
     "why": "the same loss written as an if / else-if chain: (mode, None) yields None"},
    {"name": "merge-or-pattern-swapped", "kind": "benign",
     "edits": [(_XC, _X_MERGE_HEAD, _X_MERGE_HEAD.replace("(ExtensionMode::None, x) | (x, ExtensionMode::None) => x,", "(x, ExtensionMode::None) | (ExtensionMode::None, x) => x,"))],
     "why": "behaviour-preserving: the alternatives of the or-pattern swapped (both select the other component)"},
    {"name": "merge-arms-reordered-if-chain", "kind": "benign",
     "edits": [(_XC, _X_MERGE,
                "            let mut metadata = X::metadata(_body_content_type.clone());\n            let next = std::mem::take(&mut metadata.extension_mode);\n"
                "            extension_mode = if next == ExtensionMode::None {\n                extension_mode\n            } else if extension_mode == ExtensionMode::None || extension_mode == next {\n                next\n            } else {\n"
                "                panic!(\"incompatible extension modes in tuple: {:?} != {:?}\", extension_mode, next);\n            };\n")],
     "why": "behaviour-preserving: the merge as an if / else-if chain with the cases in another order ((x, None) first, then (None, y) and equal modes, else the panic)"},
]

LEVEL_TEXT += " Also (R7): every framework-generated error on the endpoint path is converted through the endpoint's declared error type before it becomes a response, so its body matches the documented error schema of a custom error type."
LEVEL_TEXT += " Also (R9): the $ref an operation uses for its error responses names the components.responses entry that holds that error type's schema."
LEVEL_TEXT += ' Also (R10 = C09.R8, R11 = C08.R1): the documented media type is matched after normalisation, and schema keywords are carried to the keyword of the same meaning.'
LEVEL_TEXT += " Also (R12): the extension mode (pagination / websocket) documented for a tuple of extractors is None when no member declares one, the declaring member's mode whatever its position when exactly one does, and a panic when two members declare different ones — decided by interpreting each tuple's metadata() over every assignment of modes to its members (the members' own metadata() stubbed). Also (R13): ResultsPage<T> is documented by its schema twin ResultsPageSchema<T> and serialised by its own impl -- the documented properties are the serialised keys with the same field types, and every required property is written on every path; (R5) the same always-serialised clause for the error body. Also (R14 = C02.R5b): a parameter type is accepted, hence documented, only when the scalar check justified every alternative of its schema."


SELFTEST += [
    {"name": "results-page-optional-token-omitted-when-absent", "kind": "benign", "why": "the property holds: next_page is documented as an optional (nullable, not required) property, so omitting it when None is valid against the schema",
     "edits": [("dropshot/src/pagination.rs", "    pub next_page: Option<String>,\n    /// list of items on this page of results\n    pub items: Vec<ItemType>,",
                "    #[serde(skip_serializing_if = \"Option::is_none\")]\n    pub next_page: Option<String>,\n    /// list of items on this page of results\n    pub items: Vec<ItemType>,")]},
    {"name": "results-page-required-items-omitted-when-empty", "kind": "mutant", "expect": ["C07.R13"], "why": "an empty page is sent as `{}` while the document requires `items`",
     "edits": [("dropshot/src/pagination.rs", "    /// list of items on this page of results\n    pub items: Vec<ItemType>,\n}\n\nimpl<ItemType> JsonSchema",
                "    /// list of items on this page of results\n    #[serde(default = \"Vec::new\", skip_serializing_if = \"Vec::is_empty\")]\n    pub items: Vec<ItemType>,\n}\n\nimpl<ItemType> JsonSchema")]},
    {"name": "error-body-required-message-omitted-when-empty", "kind": "mutant", "expect": ["C07.R5"], "why": "an error with an empty message is sent without `message`, which the hand-written schema requires",
     "edits": [("dropshot/src/error.rs", "    pub error_code: Option<String>,\n    pub message: String,", "    pub error_code: Option<String>,\n    #[serde(skip_serializing_if = \"String::is_empty\")]\n    pub message: String,")]},
]
